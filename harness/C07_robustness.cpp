// C07 -- One client's traffic can never hang or crash the server.
//
// MUTX over the in-process reflector (harness/reflector_l1.h): a real ReflectServer with real StorageReflectSessions
//   X (host hX, id 1)  the attacker: sends the histories below and NEVER reads (its outgoing queue is never drained)
//   V (host hV, id 2)  a bystander with data (vx, vx/y, an indexed node vi with two children), a parameter and a subscription to X's nodes
//   W (host hW, id 3)  a witness with nothing
// A CASE is one HISTORY = (pre-state, command 1 [, command 2 [, command 3]]) of X, decoded from the case index; the commands
// come from the table in harness/C07_alphabet.h (what-code x PR_NAME_KEYS shape x PR_NAME_FILTERS shape x extra field, plus
// command-specific specials; filters in ACCEPT/REJECT pairs with respect to the payloads that sit in X's queue).
// After EVERY command of X, on the same server:
//   * the server must be quiescent and its node tree structurally sound,
//   * W sends PR_COMMAND_PING(tag) and must find exactly one PR_RESULT_PONG(tag) in its queue,
//   * V sends GETDATA /hV/2/* and must get exactly the answer it got before X started,
//   * V's subtree, index, parameters and subscriptions must be unchanged (cheap check; isolation proper is C06),
// and after the last command V does SETDATA / GETDATA / REMOVEDATA of a node of its own (each must take effect), the real
// event loop makes one pass (ServerProcessLoop(0)) with X's queue still full, V and W must still be attached, W pings again.
// "Handled in bounded time" = the MUTX CPU-time watchdog (ITIMER_VIRTUAL, per case, >= 1000x a typical case): a handler that
// never returns kills the forked worker, the death is attributed to the case and re-confirmed alone with a 10x budget.
// ASan/UBSan reports kill the worker the same way.
//
// Classification of deaths: before every step the worker rewrites its (captured) stderr with a one-line breadcrumb in the form
// of a stack frame, "    #0 0x0 in <WHAT>:<filter class>:<queue class>[:<phase>] (C07)", so that MUTX's death key -- which ends with
// the innermost frame of the captured report -- names the command class that was executing: fatal:hang:JETTISONRESULTS:accepting-filter:queued-dataitems.
// The class is computed from the command Message and X's queue at that moment (ClassOfMessage below): a keyed JETTISONRESULTS counts as
// "accepting-filter" exactly when the PathMatcher the handler will build accepts an item that is queued right now.
//
// Pruning (Watchdog lesson: never extend a history whose prefix already hung).  Depth 1 is enumerated first; the set D of dead
// (pre-state, history) pairs is read back from a shared status array (started but never finished).  A longer history from the
// same pre-state is NOT executed when a proper prefix of it is in D (the server is already dead) or when a proper suffix of it is
// in D (that command sequence is already a reported violation from this very pre-state); both kinds are counted in `extra`.
// On a tree without dying histories nothing is skipped.
//
// Depth 2 first commands: one representative (lowest command number) per distinct ABSTRACT post-state class of the depth-1 run
// (tree + X's subscriptions/route/flags + X's queue with DATAITEMS/DATATREES/INDEXUPDATED in full and other queued Messages by what
// code); commands that leave the exact canonical state unchanged are excluded (their extensions ARE the depth-1 cases).  Quick tier:
// representatives among the reduced alphabet, pre-states 0, 2, 3.  Thorough tier: among all commands for the pre-states with a full
// queue (2, 3), among the flagged state builders for the others; plus depth 3 over the reduced alphabet.
//
// Part l2-sockets (harness/C07_l2.h): a fixed list of histories and the first histories that died at depth 1 are replayed against the
// socket-stepped server (real socket pairs + gateways, ServerProcessLoop(0) cycles, X's connection full because X does not read), so
// that a finding reads "the server's event loop stopped", not "a handler was slow in a harness".
//
// Aids: --list 1 (the alphabet with flags and static classes), --reps 1 (the depth-2 first commands), --bench 1 (cost of a history),
// --cpu <s> (watchdog budget), --replay <file> (runs the history of a replay file in this process, verbosely).
#include "harness/reflector_l1.h"
#include "harness/C07_alphabet.h"
#include "harness/C07_l2.h"
#include "reflector/FilterSessionFactory.h"
#include "engines/mutx/mutx.h"

using l1::MessageRef;
using c07::Rich;

enum { RX = 0, RV = 1, RW = 2 };
enum { P_IDLE = 0, P_SLOW1, P_SLOW3, P_SELF, P_PRIV, NUM_PRE };
static const char * kPreName[NUM_PRE] = {
   "idle: X holds x, x/y and the indexed node xi[a,b]; nothing queued for X",
   "slow reader, 1 queued: as idle, then X sent GETDATA /hV/*/vx and did not read the PR_RESULT_DATAITEMS",
   "slow reader, >=3 queued: as idle, then X subscribed to /hV/*/*, V changed vx and appended to its index vi; X read nothing (2 DATAITEMS + INDEXUPDATED queued)",
   "reflect-to-self: as idle, then X set reflect-to-self + max-update-items=1 + SUBSCRIBE:/*/*/* (one-item DATAITEMS queued) and sent two GETDATATREES (two DATATREES queued); X read nothing",
   "privileged: as idle, but X came in through a FilterSessionFactory port and holds the ban/unban privileges (not KICK)"
};

// ------------------------------------------------------------------------------------------------ shared with the forked workers
struct CaseRec { uint8_t status; uint8_t pad[7]; uint64_t post, abs; };   // status: 0 not run, 1 started, 2 finished clean, 3 finished with a failed check, 4 skipped by a pruning rule
struct Counters { volatile uint64_t commands, pongs, victimProbes, jettisonCommands, jettisonEditedQueue, skippedPrefix, skippedSuffix, maxQueue, loopPasses, banListEdits; };
static Counters * g_cnt = NULL;
#define ADD(field, n) __sync_fetch_and_add(&g_cnt->field, (uint64_t)(n))
template <class T> static T * ShmAlloc(size_t n)
{
   void * p = mmap(NULL, (n ? n : 1) * sizeof(T), PROT_READ | PROT_WRITE, MAP_SHARED | MAP_ANONYMOUS, -1, 0);
   if (p == MAP_FAILED) { perror("mmap"); exit(3); }
   return (T *)p;
}

// breadcrumb (see the header comment).  Only in worker processes, whose fd 2 is MUTX's capture file.
static bool g_crumbs = false;
static void Crumb(const std::string & cls, const char * phase, int k, int n)
{
   if (!g_crumbs) return;
   char buf[768];
   const int len = snprintf(buf, sizeof(buf), "    #0 0x0 in %s%s%s (C07)\n    #1 0x0 in while-executing-command-%d-of-%d (C07)\n", cls.c_str(), phase[0] ? ":" : "", phase, k, n);
   if (ftruncate(2, 0) == 0) (void) lseek(2, 0, SEEK_SET);
   if (len > 0 && write(2, buf, (size_t)len) < 0) {}
}

// generated ordered-child names (I<number>) depend on the recycled DataNode's counter (finding F15): drop the number
static std::string DropGeneratedNumbers(const std::string & s)
{
   std::string o; o.reserve(s.size());
   for (size_t i = 0; i < s.size(); i++) {
      o += s[i];
      if (s[i] == 'I' && (i == 0 || !isalnum((unsigned char)s[i - 1])) && i + 1 < s.size() && isdigit((unsigned char)s[i + 1])) {
         size_t j = i + 1; while (j < s.size() && isdigit((unsigned char)s[j])) j++;
         if (j == s.size() || !isalnum((unsigned char)s[j])) { o += '#'; i = j - 1; }
      }
   }
   return o;
}


// ------------------------------------------------------------------------------------------------ classification of a command (violation keys)
// <WHAT>:<filter class>, computed from the Message itself.  WHAT = name of the what code; for a PR_COMMAND_BATCH: BATCH+JETTISONRESULTS when a
// keyed JETTISONRESULTS is nested anywhere inside, else BATCH+<first inner command>.  Filter class = no-filter | invalid-filter (field of the
// wrong type, or an archive the real factory rejects) | accepting-filter | rejecting-filter | mixed-filter, judged by what the first archive does
// to the payloads Rich(1..9) without a node context; for a keyed JETTISONRESULTS it is accepting-filter as soon as the real PathMatcher built
// from the command (as the handler builds it) accepts at least one item of a PR_RESULT_DATAITEMS that is sitting in X's queue right now.
static const muscle::Message * FindKeyedJettison(const muscle::Message & m, int depth)
{
   if (m.what == muscle::PR_COMMAND_JETTISONRESULTS && m.HasName(PR_NAME_KEYS, B_STRING_TYPE)) return &m;
   if (m.what != muscle::PR_COMMAND_BATCH || depth > 110) return NULL;
   muscle::ConstMessageRef sub;
   for (int32_t i = 0; m.FindMessage(PR_NAME_KEYS, i, sub).IsOK(); i++) if (sub()) { const muscle::Message * r = FindKeyedJettison(*sub(), depth + 1); if (r) return r; }
   return NULL;
}
static const muscle::Message * FirstInner(const muscle::Message & m, int depth)
{
   if (m.what != muscle::PR_COMMAND_BATCH || depth > 110) return &m;
   muscle::ConstMessageRef sub;
   if (m.FindMessage(PR_NAME_KEYS, 0, sub).IsOK() && sub()) return FirstInner(*sub(), depth + 1);
   return NULL;
}
static std::string ClassOfMessage(const muscle::Message & top, const muscle::Queue<MessageRef> * xq)
{
   const muscle::Message * t = &top; std::string w = c07::WhatName(top.what);
   if (top.what == muscle::PR_COMMAND_BATCH) {
      const muscle::Message * j = FindKeyedJettison(top, 0);
      if (j) { w = "BATCH+JETTISONRESULTS"; t = j; }
      else { const muscle::Message * f = FirstInner(top, 0); if (f && f != &top) { w = "BATCH+" + c07::WhatName(f->what); t = f; } }
   }
   if (!t->HasName(PR_NAME_FILTERS)) return w + ":no-filter";
   muscle::ConstMessageRef arch;
   if (t->FindMessage(PR_NAME_FILTERS, arch).IsError() || arch() == NULL) return w + ":invalid-filter";
   muscle::QueryFilterRef q = muscle::GetGlobalQueryFilterFactory()()->CreateQueryFilter(*arch());
   if (q() == NULL) return w + ":invalid-filter";
   if (t->what == muscle::PR_COMMAND_JETTISONRESULTS && xq && t->HasName(PR_NAME_KEYS, B_STRING_TYPE)) {
      muscle::PathMatcher pm; (void) pm.PutPathsFromMessage(PR_NAME_KEYS, PR_NAME_FILTERS, *t, "*/*");   // "*/*" = DEFAULT_PATH_PREFIX of StorageReflectSession.cpp
      if (pm.GetNumFilters() > 0)
         for (uint32_t i = 0; i < xq->GetNumItems(); i++) {
            const muscle::Message * qm = (*xq)[i](); if (qm == NULL || qm->what != muscle::PR_RESULT_DATAITEMS) continue;
            for (muscle::MessageFieldNameIterator it = qm->GetFieldNameIterator(B_MESSAGE_TYPE); it.HasData(); it++) {
               muscle::ConstMessageRef item;
               for (int32_t k = 0; qm->FindMessage(it.GetFieldName(), k, item).IsOK(); k++) if (pm.MatchesPath(it.GetFieldName()(), item(), NULL)) return w + ":accepting-filter";
            }
         }
   }
   int yes = 0; for (int v = 1; v <= 9; v++) { muscle::ConstMessageRef p = Rich(v); if (q()->Matches(p, NULL)) yes++; }
   return w + ((yes == 9) ? ":accepting-filter" : (yes == 0) ? ":rejecting-filter" : ":mixed-filter");
}

// ------------------------------------------------------------------------------------------------ the scene
struct Scene {
   l1::L1World w;
   std::string vState, vProbe;   // V's state and V's GETDATA answer before X's history starts
   int pingTag;
   const muscle::FilterSessionFactory * fsf;   // the privileged pre-state's factory (owned by the server)
   Scene() : pingTag(1000), fsf(NULL) {}
};

static std::string QueueText(const l1::L1World & w, int role)
{
   std::string o; const l1::Session * s = w.S(role); if (s == NULL || s->GetGateway()() == NULL) return o;
   const muscle::Queue<MessageRef> & q = s->GetGateway()()->GetOutgoingMessageQueue();
   for (uint32_t i = 0; i < q.GetNumItems(); i++) { o += l1::Flat(q[i]); o += '|'; }
   return o;
}
static std::string QueueSummary(const l1::L1World & w, int role)   // "DATAITEMS,INDEXUPDATED,..." for descriptions
{
   std::string o; const l1::Session * s = w.S(role); if (s == NULL || s->GetGateway()() == NULL) return o;
   const muscle::Queue<MessageRef> & q = s->GetGateway()()->GetOutgoingMessageQueue();
   for (uint32_t i = 0; i < q.GetNumItems() && i < 12; i++) o += (i ? "," : "") + l1::WhatText(q[i]()->what);
   if (q.GetNumItems() > 12) o += ",...(" + l1::U32(q.GetNumItems()) + ")";
   return o;
}
static const char * QueueClass(const l1::L1World & w, int role)
{
   const l1::Session * s = w.S(role); if (s == NULL || s->GetGateway()() == NULL) return "queue-empty";
   const muscle::Queue<MessageRef> & q = s->GetGateway()()->GetOutgoingMessageQueue();
   if (q.IsEmpty()) return "queue-empty";
   for (uint32_t i = 0; i < q.GetNumItems(); i++) if (q[i]() && q[i]()->what == muscle::PR_RESULT_DATAITEMS) return "queued-dataitems";
   return "queued-other";
}

// ---- compact canonical forms (text rendering of the 13-field payloads dominated the cost of a history; payloads never contain
// generated names, so they enter as a hash of their flattened bytes; everything else is spelled out, generated names without number)
static void AppendHash(std::string & o, const std::string & bytes) { const verif::Hash128 h = verif::HashStr(bytes); char b[40]; snprintf(b, sizeof(b), "#%016llx%016llx", (unsigned long long)h.a, (unsigned long long)h.b); o += b; }
static void AppendMsgCanon(std::string & o, const muscle::Message & m, int depth)
{
   if (m.what == (uint32_t)c07::RICH_WHAT) { const int32_t id = c07::RichIdOf(&m); if (id >= 0) { o += 'R'; o += l1::U32((uint32_t)id); return; } }   // a shared payload object (content re-checked by RichIntact())
   if (m.what == (uint32_t)c07::RICH_WHAT || depth > 12) { AppendHash(o, l1::Flat(m)); return; }
   o += '{'; o += l1::U32(m.what);
   for (muscle::MessageFieldNameIterator it = m.GetFieldNameIterator(); it.HasData(); it++) {
      const muscle::String & fn = it.GetFieldName();
      if (l1::IsVolatileFieldName(fn)) continue;
      uint32_t type = 0, count = 0; (void) m.GetInfo(fn, &type, &count);
      o += ' '; o += DropGeneratedNumbers(fn()); o += ':'; o += l1::U32(type); o += '=';
      for (uint32_t i = 0; i < count; i++) {
         if (i) o += ',';
         if (type == B_MESSAGE_TYPE) { muscle::ConstMessageRef sub; if (m.FindMessage(fn, i, sub).IsOK() && sub()) AppendMsgCanon(o, *sub(), depth + 1); }
         else if (type == B_STRING_TYPE) { const muscle::String * str = NULL; if (m.FindString(fn, i, &str).IsOK() && str) { o += '\''; o += DropGeneratedNumbers((*str)()); o += '\''; } }
         else { const void * d = NULL; uint32_t nb = 0; if (m.FindData(fn, B_ANY_TYPE, i, &d, &nb).IsOK() && d) { if (nb <= 16) o += l1::Hex(d, nb); else AppendHash(o, std::string((const char *)d, nb)); } }
      }
   }
   o += '}';
}
static void AppendNodeCanon(std::string & o, const muscle::DataNode & n, bool subscribers)
{
   o += DropGeneratedNumbers(n.GetNodeName()()); o += '=';
   if (n.GetData()()) AppendMsgCanon(o, *n.GetData()(), 0); else o += "(null)";
   if (subscribers && n.GetSubscribers().HasItems()) {
      std::vector<std::pair<uint32_t, uint32_t> > subs;
      for (muscle::ConstHashtableIterator<uint32_t, uint32_t> it(n.GetSubscribers()); it.HasData(); it++) subs.push_back(std::make_pair((uint32_t)it.GetKey(), (uint32_t)it.GetValue()));
      std::sort(subs.begin(), subs.end());
      o += " s"; for (size_t i = 0; i < subs.size(); i++) { o += (i ? ',' : '='); o += l1::U32(subs[i].first); o += 'x'; o += l1::U32(subs[i].second); }
   }
   const muscle::Queue<muscle::DataNodeRef> * idx = n.GetIndex();
   if (idx) { o += " i["; for (uint32_t i = 0; i < idx->GetNumItems(); i++) { if (i) o += ','; o += DropGeneratedNumbers((*idx)[i]()->GetNodeName()()); } o += ']'; }
   if (n.GetNumChildren() > 0) {
      std::vector<std::pair<std::string, const muscle::DataNode *> > kids;
      for (muscle::DataNodeRefIterator it = n.GetChildIterator(); it.HasData(); it++) kids.push_back(std::make_pair(std::string((*it.GetKey())()), (const muscle::DataNode *)it.GetValue()()));
      std::sort(kids.begin(), kids.end());
      o += '(';
      for (size_t i = 0; i < kids.size(); i++) { if (i) o += ' '; AppendNodeCanon(o, *kids[i].second, subscribers); }
      o += ')';
   }
}
static void AppendMatcherCanon(std::string & o, const muscle::PathMatcher & pm)
{
   std::vector<std::string> lines;
   for (muscle::ConstHashtableIterator<uint32_t, muscle::Hashtable<muscle::String, muscle::PathMatcherEntry> > it(pm.GetEntries()); it.HasData(); it++)
      for (muscle::ConstHashtableIterator<muscle::String, muscle::PathMatcherEntry> sub(it.GetValue()); sub.HasData(); sub++) {
         std::string l = l1::U32(it.GetKey()) + ":" + sub.GetKey()();
         const muscle::QueryFilter * f = sub.GetValue().GetFilter()();
         if (f) { muscle::Message a; (void) f->SaveToArchive(a); AppendHash(l, l1::Flat(a)); }
         lines.push_back(l);
      }
   std::sort(lines.begin(), lines.end());
   for (size_t i = 0; i < lines.size(); i++) { o += ' '; o += lines[i]; }
   o += " nf="; o += l1::U32(pm.GetNumFilters());
}
// queue: 0 = not shown, 1 = every queued Message in full, 2 = abstract (result Messages that the edit-the-queue handlers look at -- DATAITEMS,
// DATATREES, INDEXUPDATED -- in full, every other queued Message by its what code only); params: the raw parameter Message (the state derived
// from it -- subscriptions, default route, flags, limits -- is always shown)
static void AppendSessionCanon(std::string & o, const l1::L1World & w, int role, int queue, bool params = true)
{
   const l1::Session * s = w.S(role); if (s == NULL) { o += "(gone)"; return; }
   if (params) { o += "params="; AppendMsgCanon(o, s->_parameters, 0); }
   o += " subs:"; AppendMatcherCanon(o, s->_subscriptions);
   o += " route:"; AppendMatcherCanon(o, s->_defaultMessageRoute);
   o += verif::Fmt(" flags=%s en=%d max=%u idx=%d nodes=%u ka=%u lame=%d", s->_defaultRoutingFlags.ToHexString()(), (int)s->_subscriptionsEnabled, (unsigned)s->_maxSubscriptionMessageItems, (int)s->_indexingPresent, (unsigned)s->_currentNodeCount,
                   (unsigned)s->_keepAliveIntervalSeconds, (int)w.server._lameDuckSessions.ContainsKey(&s->GetSessionIDString()));
   const muscle::MessageIOGateway * gw = dynamic_cast<const muscle::MessageIOGateway *>(s->GetGateway()());
   if (gw) o += verif::Fmt(" enc=%d", (int)gw->GetOutgoingEncoding());
   if (queue && s->GetGateway()()) {
      const muscle::Queue<MessageRef> & q = s->GetGateway()()->GetOutgoingMessageQueue();
      for (uint32_t i = 0; i < q.GetNumItems(); i++) {
         o += "\n q "; if (q[i]() == NULL) continue;
         const uint32_t wh = q[i]()->what;
         if (queue == 1 || wh == muscle::PR_RESULT_DATAITEMS || wh == muscle::PR_RESULT_DATATREES || wh == muscle::PR_RESULT_INDEXUPDATED) AppendMsgCanon(o, *q[i](), 0); else o += l1::U32(wh);
      }
   }
}
static const muscle::DataNode * FindNode(const l1::L1World & w, const char * a, const char * b = NULL, const char * c = NULL)
{
   const muscle::DataNode * n = w.RootNode(); const char * seg[3] = { a, b, c };
   for (int i = 0; i < 3 && n && seg[i]; i++) { muscle::DataNodeRef k; n = (n->GetChild(muscle::String(seg[i]), k).IsOK()) ? k() : NULL; }
   return n;
}
// the whole server: tree (payloads, subscriber tables, indices), every session (parameters, subscriptions, flags), X's undrained queue, ban/require patterns
// abstract = true: the coarser form used only to choose depth-2 first commands (X's raw parameter Message left out, X's queue abstract)
static std::string ServerState(const l1::L1World & w, const muscle::FilterSessionFactory * fsf, bool abstract = false)
{
   std::string o; const muscle::DataNode * root = w.RootNode();
   if (root) AppendNodeCanon(o, *root, true);
   for (int r = 0; r < 3; r++) { o += verif::Fmt("\nS%d ", r); AppendSessionCanon(o, w, r, (r == RX) ? (abstract ? 2 : 1) : 0, !(abstract && r == RX)); }
   if (fsf) {
      std::vector<std::string> pats;
      for (muscle::ConstHashtableIterator<muscle::String, muscle::StringMatcherRef> it(fsf->_bans); it.HasData(); it++) pats.push_back(std::string("ban:") + it.GetKey()());
      for (muscle::ConstHashtableIterator<muscle::String, muscle::StringMatcherRef> it(fsf->_requires); it.HasData(); it++) pats.push_back(std::string("req:") + it.GetKey()());
      std::sort(pats.begin(), pats.end()); for (size_t i = 0; i < pats.size(); i++) o += "\n" + pats[i];
   }
   return o;
}
// V's tree (payloads, indices), parameters, subscriptions, flags -- without the per-node subscriber tables (X may legitimately subscribe to V's nodes)
static std::string VictimState(const l1::L1World & w)
{
   std::string o; const muscle::DataNode * n = FindNode(w, "hV", "2");
   if (n) AppendNodeCanon(o, *n, false); else o += "(no session node)";
   o += "\n"; AppendSessionCanon(o, w, RV, 0);
   return o;
}
static std::string VictimProbe(Scene & S)   // V: GETDATA /hV/2/* -> everything it is sent in answer (flattened bytes)
{
   (void) S.w.Drain(RV);
   S.w.Inject(RV, l1::GetData(l1::Keys("/hV/2/*")));
   std::vector<MessageRef> got = S.w.Drain(RV); std::string o;
   for (size_t i = 0; i < got.size(); i++) { if (got[i]()) AppendMsgCanon(o, *got[i](), 0); o += '\n'; }
   return o;
}
static bool WitnessPing(Scene & S, std::string & why)
{
   (void) S.w.Drain(RW);
   const int tag = ++S.pingTag;
   S.w.Inject(RW, l1::Ping(tag));
   std::vector<MessageRef> got = S.w.Drain(RW); int pongs = 0;
   for (size_t i = 0; i < got.size(); i++) if (got[i]()->what == muscle::PR_RESULT_PONG) { int32_t t = 0; if (got[i]()->FindInt32("tag", t).IsOK() && t == tag) pongs++; }
   if (pongs == 1) return true;
   why = "W sent PR_COMMAND_PING(tag=" + l1::U32((uint32_t)tag) + ") and found " + l1::U32((uint32_t)pongs) + " matching PR_RESULT_PONG among the " + l1::U32((uint32_t)got.size()) + " Message(s) in its queue";
   return false;
}

class NoSessionsFactory : public muscle::ReflectSessionFactory { public: virtual muscle::AbstractReflectSessionRef CreateSession(const muscle::String &, const muscle::IPAddressAndPort &) { return muscle::AbstractReflectSessionRef(); } };

// builds the common base and the pre-state; "" or an error text (infrastructure)
static std::string BuildPre(Scene & S, int pre)
{
   l1::L1World & w = S.w;
   uint16_t port = 0;
   if (pre == P_PRIV) {
      w.GrantPrivilege(muscle::PR_PRIVILEGE_ADDBANS, "hX"); w.GrantPrivilege(muscle::PR_PRIVILEGE_REMOVEBANS, "hX");
      muscle::FilterSessionFactory * fsf = new muscle::FilterSessionFactory(muscle::ReflectSessionFactoryRef(new NoSessionsFactory));
      muscle::ReflectSessionFactoryRef f(fsf); S.fsf = fsf;
      // (registered for "any interface": AbstractReflectSession::GetFactory(port) looks factories up under that key only)
      if (w.server.PutAcceptFactory(0, f, muscle::invalidIP, &port).IsError()) return "PutAcceptFactory (listening socket on an ephemeral port) failed";
   }
   if (!w.Attach(RX, "hX", 1) || !w.Attach(RV, "hV", 2) || !w.Attach(RW, "hW", 3)) return "attach failed";
   if (pre == P_PRIV) {
      // what ReflectServer::DoAccept() does for a session created by a factory (ReflectServer.cpp: newSessionRef()->_ipAddressAndPort = iap):
      // the session remembers the interface/port it was accepted on, which is how ADDBANS/REMOVEBANS find "their" factory.
      w.S(RX)->_ipAddressAndPort = muscle::IPAddressAndPort(muscle::localhostIP, port);
      if (w.S(RX)->GetFactory(w.S(RX)->GetPort())() != S.fsf) return "the privileged pre-state's session does not find its FilterSessionFactory";
   }
   // V
   w.Inject(RV, l1::SetData("vx", Rich(1))); w.Inject(RV, l1::SetData("vx/y", Rich(2))); w.Inject(RV, l1::SetData("vi", Rich(3)));
   w.Inject(RV, l1::SetData("vi/a", Rich(4), l1::Flags(muscle::SETDATANODE_FLAG_ADDTOINDEX))); w.Inject(RV, l1::SetData("vi/b", Rich(5), l1::Flags(muscle::SETDATANODE_FLAG_ADDTOINDEX)));
   { MessageRef p = l1::Subscribe("/hX/*/*"); (void) p()->AddInt32("vparam", 5); w.Inject(RV, p); }
   // X
   w.Inject(RX, l1::SetData("x", Rich(1))); w.Inject(RX, l1::SetData("x/y", Rich(2))); w.Inject(RX, l1::SetData("xi", Rich(3)));
   w.Inject(RX, l1::SetData("xi/a", Rich(4), l1::Flags(muscle::SETDATANODE_FLAG_ADDTOINDEX))); w.Inject(RX, l1::SetData("xi/b", Rich(5), l1::Flags(muscle::SETDATANODE_FLAG_ADDTOINDEX)));
   (void) w.Drain(RX); (void) w.Drain(RV); (void) w.Drain(RW);
   switch (pre) {
      case P_SLOW1: w.Inject(RX, l1::GetData(l1::Keys("/hV/*/vx"))); break;
      case P_SLOW3:
         w.Inject(RX, c07::SubscribeTo("/hV/*/*"));
         w.Inject(RV, l1::SetData("vx", Rich(6)));
         w.Inject(RV, l1::SetData("vi/c", Rich(7), l1::Flags(muscle::SETDATANODE_FLAG_ADDTOINDEX)));
         break;
      case P_SELF:
         w.Inject(RX, c07::SelfOneItem("/*/*/*"));
         w.Inject(RX, l1::GetDataTrees(l1::Keys("/hV/*/*"), "t1"));
         w.Inject(RX, l1::GetDataTrees(l1::Keys("*"), "t2"));
         break;
      default: break;
   }
   (void) w.Drain(RV); (void) w.Drain(RW);
   std::string q = w.CheckQuiescent(); if (!q.empty()) return "pre-state not quiescent: " + q;
   q = w.CheckTreeInvariants(); if (!q.empty()) return "pre-state tree invariant: " + q;
   S.vState = VictimState(w); S.vProbe = VictimProbe(S);
   if (S.vProbe.find("/hV/2/vx") == std::string::npos || S.vProbe.find("/hV/2/vi") == std::string::npos) return "V's GETDATA /hV/2/* does not return its own nodes in the pre-state: " + S.vProbe;
   std::string why; if (!WitnessPing(S, why)) return "pre-state: " + why;
   return "";
}
// what the pre-state is expected to have queued for X (checked once at start-up, in the parent)
static std::string PreQueueExpectation(int pre, const l1::L1World & w)
{
   const l1::Session * s = w.S(RX); const muscle::Queue<MessageRef> & q = s->GetGateway()()->GetOutgoingMessageQueue();
   uint32_t items = 0, trees = 0, index = 0; for (uint32_t i = 0; i < q.GetNumItems(); i++) { const uint32_t wh = q[i]()->what; if (wh == muscle::PR_RESULT_DATAITEMS) items++; else if (wh == muscle::PR_RESULT_DATATREES) trees++; else if (wh == muscle::PR_RESULT_INDEXUPDATED) index++; }
   switch (pre) {
      case P_IDLE: case P_PRIV: return q.IsEmpty() ? "" : "queue not empty";
      case P_SLOW1: return (q.GetNumItems() == 1 && items == 1) ? "" : "expected exactly one queued PR_RESULT_DATAITEMS";
      case P_SLOW3: return (items >= 2 && index >= 1) ? "" : "expected >=2 PR_RESULT_DATAITEMS and >=1 PR_RESULT_INDEXUPDATED";
      case P_SELF: return (items >= 2 && trees == 2) ? "" : "expected >=2 one-item PR_RESULT_DATAITEMS and two PR_RESULT_DATATREES";
      default: break;
   }
   return "";
}

// the checks after one command of X; false (and c failed) on a violation
static bool AfterCommand(Scene & S, const std::string & cls, int k, int n, mutx::Case & c)
{
   std::string q = S.w.CheckQuiescent();
   if (!q.empty()) { c.Fail("not-quiescent:" + cls, "after X's command " + l1::U32((uint32_t)k) + " the server is not quiescent: " + q); return false; }
   q = S.w.CheckTreeInvariants();
   if (!q.empty()) { c.Fail("tree-invariant:" + cls, "after X's command " + l1::U32((uint32_t)k) + ": " + q); return false; }
   Crumb(cls, "witness-ping", k, n);
   std::string why;
   if (!WitnessPing(S, why)) { c.Fail("no-pong:" + cls, "after X's command " + l1::U32((uint32_t)k) + ": " + why); return false; }
   ADD(pongs, 1);
   Crumb(cls, "victim-getdata", k, n);
   const std::string probe = VictimProbe(S);
   if (probe != S.vProbe) { c.Fail("victim-not-served:" + cls, "after X's command " + l1::U32((uint32_t)k) + " V's GETDATA /hV/2/* is answered differently than before X started; before:\n" + S.vProbe + "now:\n" + probe); return false; }
   ADD(victimProbes, 1);
   const std::string vs = VictimState(S.w);
   if (vs != S.vState) { c.Fail("victim-changed:" + cls, "after X's command " + l1::U32((uint32_t)k) + " V's subtree / index / parameters / subscriptions differ from what they were before X started; before:\n" + S.vState + "now:\n" + vs); return false; }
   return true;
}
// after the last command: V mutates its own data, the event loop runs once, everybody still there
static bool AfterHistory(Scene & S, const std::string & cls, int n, mutx::Case & c)
{
   Crumb(cls, "victim-setdata", n, n);
   l1::L1World & w = S.w;
   (void) w.Drain(RV);
   w.Inject(RV, l1::SetData("probe", Rich(50)));
   const muscle::DataNode * pn = FindNode(w, "hV", "2", "probe");
   if (pn == NULL || pn->GetData()() == NULL || l1::Flat(*pn->GetData()()) != c07::RichFlat(50)) { c.Fail("victim-not-served:" + cls, "after X's history V's SETDATA probe=Rich(50) did not take effect"); return false; }
   (void) w.Drain(RV);
   w.Inject(RV, l1::GetData(l1::Keys("/hV/2/probe")));
   { std::vector<MessageRef> got = w.Drain(RV); bool ok = false; l1::DataItems d;
     for (size_t i = 0; i < got.size(); i++) if (l1::ParseDataItems(got[i], d)) for (size_t j = 0; j < d.sets.size(); j++) if (d.sets[j].first == "/hV/2/probe" && l1::Flat(d.sets[j].second) == c07::RichFlat(50)) ok = true;
     if (!ok) { c.Fail("victim-not-served:" + cls, "after X's history V's GETDATA /hV/2/probe did not return the node V had just set"); return false; } }
   w.Inject(RV, l1::RemoveData(l1::Keys("probe")));
   if (FindNode(w, "hV", "2", "probe") != NULL) { c.Fail("victim-not-served:" + cls, "after X's history V's REMOVEDATA probe did not take effect"); return false; }
   Crumb(cls, "event-loop-pass", n, n);
   const uint32_t gone = w.Step(); ADD(loopPasses, 1);
   if (gone & ((1u << RV) | (1u << RW))) { c.Fail("session-lost:" + cls, std::string("after X's history one pass of the event loop detached ") + ((gone & (1u << RV)) ? "V " : "") + ((gone & (1u << RW)) ? "W" : "")); return false; }
   Crumb(cls, "witness-ping-after-loop", n, n);
   std::string why;
   if (!WitnessPing(S, why)) { c.Fail("no-pong:" + cls, "after X's history and one event-loop pass: " + why); return false; }
   std::string q = w.CheckTreeInvariants();
   if (!q.empty()) { c.Fail("tree-invariant:" + cls, "after X's history and V's own commands: " + q); return false; }
   const std::string vs = VictimState(w);
   if (vs != S.vState) { c.Fail("victim-changed:" + cls, "after X's history, V's own SETDATA/REMOVEDATA of a probe node and one event-loop pass, V's state differs from what it was before X started; before:\n" + S.vState + "now:\n" + vs); return false; }
   return true;
}

// runs one history; *post (optional) receives the hash of the canonical state after the LAST command of X (before V's own commands)
static void RunHistory(const c07::Alphabet & A, int pre, const int * cmds, int n, mutx::Case & c, uint64_t * post, bool verbose, uint64_t * absPost = NULL)
{
   Scene S;
   Crumb("building-pre-state", "", 0, n);
   const std::string e = BuildPre(S, pre);
   if (!e.empty()) { c.Fail("infra:pre-state", e); return; }
   if (verbose) printf("pre-state %d: %s\n  X's queue: [%s]\n", pre, kPreName[pre], QueueSummary(S.w, RX).c_str());
   std::string cls;
   for (int k = 0; k < n; k++) {
      MessageRef m = A.Build(cmds[k]);
      Crumb(c07::WhatName(m()->what) + ":classifying-the-command-against-the-queue", "", k + 1, n);
      cls = ClassOfMessage(*m(), (S.w.S(RX) && S.w.S(RX)->GetGateway()()) ? &S.w.S(RX)->GetGateway()()->GetOutgoingMessageQueue() : NULL) + ":" + QueueClass(S.w, RX);
      const bool jet = (m()->what == muscle::PR_COMMAND_JETTISONRESULTS || m()->what == muscle::PR_COMMAND_JETTISONDATATREES);
      std::string before; if (jet) before = QueueText(S.w, RX);
      const uint32_t bansBefore = S.fsf ? (S.fsf->_bans.GetNumItems() + S.fsf->_requires.GetNumItems()) : 0;
      if (verbose) { printf("X command %d of %d: %s   [class %s]\n", k + 1, n, A.Name(cmds[k]).c_str(), cls.c_str()); fflush(stdout); }
      Crumb(cls, "", k + 1, n);
      S.w.Inject(RX, m);
      ADD(commands, 1);
      if (jet) { ADD(jettisonCommands, 1); if (QueueText(S.w, RX) != before) ADD(jettisonEditedQueue, 1); }
      if (S.fsf && (S.fsf->_bans.GetNumItems() + S.fsf->_requires.GetNumItems()) != bansBefore) ADD(banListEdits, 1);
      if (verbose) { printf("  returned; X's queue: [%s]\n", QueueSummary(S.w, RX).c_str()); fflush(stdout); }
      if (!AfterCommand(S, cls, k + 1, n, c)) return;
   }
   { const uint64_t ql = S.w.Pending(RX); uint64_t old = g_cnt->maxQueue; while (ql > old && !__sync_bool_compare_and_swap(&g_cnt->maxQueue, old, ql)) old = g_cnt->maxQueue; }
   const verif::Hash128 h = verif::HashStr(ServerState(S.w, S.fsf));
   if (post) *post = h.a ^ (h.b * 0x9e3779b97f4a7c15ULL);
   if (absPost) { const verif::Hash128 ha = verif::HashStr(ServerState(S.w, S.fsf, true)); *absPost = ha.a ^ (ha.b * 0x9e3779b97f4a7c15ULL); }
   if (n > 0 && !AfterHistory(S, cls, n, c)) return;
   if (!c07::RichIntact()) { c.Fail("payload-edited-in-place:" + cls, "a node payload Message that the harness handed to the server by reference was modified in place during this history"); return; }
   c.Outcome(verif::Fmt("%016llx%016llx", (unsigned long long)h.a, (unsigned long long)h.b));
}


// ------------------------------------------------------------------------------------------------ L2: the same history against the socket-stepped server
// (real socket pairs, real gateways, the real event loop one ServerProcessLoop(0) cycle at a time; X's connection blocked because X does not read)
static bool L2Step(c07l2::L2World & w, int role, const MessageRef & m) { if (!w.Send(role, m)) return false; w.Pass(2); return true; }
static std::string L2VictimProbe(c07l2::L2World & w)
{
   (void) w.Read(RV);
   if (!L2Step(w, RV, l1::GetData(l1::Keys("/hV/2/*")))) return "(V could not send)";
   std::vector<MessageRef> got = w.Read(RV); std::string o;
   for (size_t i = 0; i < got.size(); i++) { if (got[i]()) AppendMsgCanon(o, *got[i](), 0); o += '\n'; }
   return o;
}
static const char * L2QueueClass(const c07l2::L2World & w)
{
   if (w.s[RX]() == NULL || w.s[RX]()->GetGateway()() == NULL) return "queue-empty";
   const muscle::Queue<MessageRef> & q = w.s[RX]()->GetGateway()()->GetOutgoingMessageQueue();
   if (q.IsEmpty()) return "queue-empty";
   for (uint32_t i = 0; i < q.GetNumItems(); i++) if (q[i]() && q[i]()->what == muscle::PR_RESULT_DATAITEMS) return "queued-dataitems";
   return "queued-other";
}
static std::string L2QueueSummary(const c07l2::L2World & w)
{
   std::string o; if (w.s[RX]() == NULL || w.s[RX]()->GetGateway()() == NULL) return o;
   const muscle::Queue<MessageRef> & q = w.s[RX]()->GetGateway()()->GetOutgoingMessageQueue();
   for (uint32_t i = 0; i < q.GetNumItems() && i < 12; i++) o += (i ? "," : "") + l1::WhatText(q[i]()->what);
   if (q.GetNumItems() > 12) o += ",...(" + l1::U32(q.GetNumItems()) + ")";
   return o;
}
static void RunHistoryL2(const c07::Alphabet & A, int pre, const int * cmds, int n, mutx::Case & c, bool verbose)
{
   Crumb("L2:building-pre-state", "", 0, n);
   c07l2::L2World w;
   if (pre == P_PRIV) { c.Fail("infra:l2", "the privileged pre-state is not part of the L2 space"); return; }
   if (!w.Attach(RX, "hX", 1, true) || !w.Attach(RV, "hV", 2, false) || !w.Attach(RW, "hW", 3, false)) { c.Fail("infra:l2", "socket pair / attach failed"); return; }
   bool ok = true;
   ok = ok && L2Step(w, RV, l1::SetData("vx", Rich(1))) && L2Step(w, RV, l1::SetData("vx/y", Rich(2))) && L2Step(w, RV, l1::SetData("vi", Rich(3)));
   ok = ok && L2Step(w, RV, l1::SetData("vi/a", Rich(4), l1::Flags(muscle::SETDATANODE_FLAG_ADDTOINDEX))) && L2Step(w, RV, l1::SetData("vi/b", Rich(5), l1::Flags(muscle::SETDATANODE_FLAG_ADDTOINDEX)));
   { MessageRef p = l1::Subscribe("/hX/*/*"); (void) p()->AddInt32("vparam", 5); ok = ok && L2Step(w, RV, p); }
   ok = ok && L2Step(w, RX, l1::SetData("x", Rich(1))) && L2Step(w, RX, l1::SetData("x/y", Rich(2))) && L2Step(w, RX, l1::SetData("xi", Rich(3)));
   ok = ok && L2Step(w, RX, l1::SetData("xi/a", Rich(4), l1::Flags(muscle::SETDATANODE_FLAG_ADDTOINDEX))) && L2Step(w, RX, l1::SetData("xi/b", Rich(5), l1::Flags(muscle::SETDATANODE_FLAG_ADDTOINDEX)));
   if (!ok) { c.Fail("infra:l2", "could not deliver the base commands"); return; }
   if (!w.BlockOutput(RX)) { c.Fail("infra:l2", "X's connection could not be brought into the blocked state (kernel buffer never filled)"); return; }
   switch (pre) {
      case P_SLOW1: ok = L2Step(w, RX, l1::GetData(l1::Keys("/hV/*/vx"))); break;
      case P_SLOW3: ok = L2Step(w, RX, c07::SubscribeTo("/hV/*/*")) && L2Step(w, RV, l1::SetData("vx", Rich(6))) && L2Step(w, RV, l1::SetData("vi/c", Rich(7), l1::Flags(muscle::SETDATANODE_FLAG_ADDTOINDEX))); break;
      case P_SELF: ok = L2Step(w, RX, c07::SelfOneItem("/*/*/*")) && L2Step(w, RX, l1::GetDataTrees(l1::Keys("/hV/*/*"), "t1")) && L2Step(w, RX, l1::GetDataTrees(l1::Keys("*"), "t2")); break;
      default: break;
   }
   if (!ok) { c.Fail("infra:l2", "could not deliver the pre-state commands"); return; }
   (void) w.Read(RV); (void) w.Read(RW);
   const std::string vProbe = L2VictimProbe(w);
   if (vProbe.find("/hV/2/vx") == std::string::npos) { c.Fail("infra:l2", "V's GETDATA /hV/2/* is not answered in the pre-state: " + vProbe); return; }
   if (verbose) printf("L2 pre-state %d: %s\n  X never reads; Messages the server holds for X behind the full socket: [%s]\n", pre, kPreName[pre], L2QueueSummary(w).c_str());
   int tag = 5000;
   for (int k = 0; k < n; k++) {
      MessageRef m = A.Build(cmds[k]);
      Crumb("L2:" + c07::WhatName(m()->what) + ":classifying-the-command-against-the-queue", "", k + 1, n);
      const std::string cls = "L2:" + ClassOfMessage(*m(), (w.s[RX]() && w.s[RX]()->GetGateway()()) ? &w.s[RX]()->GetGateway()()->GetOutgoingMessageQueue() : NULL) + ":" + L2QueueClass(w);
      if (verbose) { printf("X writes command %d of %d to its socket: %s   [class %s]\n", k + 1, n, A.Name(cmds[k]).c_str(), cls.c_str()); fflush(stdout); }
      Crumb(cls, "client-write", k + 1, n);
      if (!w.Send(RX, m)) { c.Fail("l2-input-not-accepted:" + cls, "the server stopped reading X's socket: command " + l1::U32((uint32_t)k + 1) + " could not be written"); return; }
      Crumb(cls, "event-loop-pass", k + 1, n);
      w.Pass(2); ADD(loopPasses, 2); ADD(commands, 1);
      if (verbose) { printf("  two event-loop cycles returned; held for X: [%s]\n", L2QueueSummary(w).c_str()); fflush(stdout); }
      Crumb(cls, "witness-ping", k + 1, n);
      (void) w.Read(RW); ++tag;
      if (!L2Step(w, RW, l1::Ping(tag))) { c.Fail("no-pong:" + cls, "W could not write its PING"); return; }
      { std::vector<MessageRef> got = w.Read(RW); int pongs = 0;
        for (size_t i = 0; i < got.size(); i++) if (got[i]()->what == muscle::PR_RESULT_PONG) { int32_t t = 0; if (got[i]()->FindInt32("tag", t).IsOK() && t == tag) pongs++; }
        if (pongs != 1) { c.Fail("no-pong:" + cls, "after X's command " + l1::U32((uint32_t)k + 1) + " W's PING over its socket was answered by " + l1::U32((uint32_t)pongs) + " PONGs within two event-loop cycles"); return; } }
      ADD(pongs, 1);
      Crumb(cls, "victim-getdata", k + 1, n);
      const std::string probe = L2VictimProbe(w);
      if (probe != vProbe) { c.Fail("victim-not-served:" + cls, "after X's command " + l1::U32((uint32_t)k + 1) + " V's GETDATA /hV/2/* over its socket is answered differently than before; before:\n" + vProbe + "now:\n" + probe); return; }
      ADD(victimProbes, 1);
      if (!w.Attached(RV) || !w.Attached(RW)) { c.Fail("session-lost:" + cls, "V or W is no longer attached"); return; }
   }
   c.Outcome(verif::Fmt("%u held for X, X attached=%d", (unsigned)w.Queued(RX), (int)w.Attached(RX)));
}

// ------------------------------------------------------------------------------------------------ history spaces
struct Prefix { int pre; int cmd[2]; int len; };
typedef std::vector<int> Hist;   // (pre, c1, ..)
static Hist MakeHist(int pre, const int * cmds, int n) { Hist h; h.push_back(pre); for (int i = 0; i < n; i++) h.push_back(cmds[i]); return h; }

struct Space {
   std::string part; int depth;
   std::vector<Prefix> prefixes; std::vector<int> last;       // case i = prefixes[i / last.size()] + last[i % last.size()]
   size_t Size() const { return prefixes.size() * last.size(); }
   void Decode(size_t i, int & pre, int * cmds, int & n) const
   {
      const Prefix & p = prefixes[i / last.size()]; pre = p.pre; n = 0;
      for (int k = 0; k < p.len; k++) cmds[n++] = p.cmd[k];
      cmds[n++] = last[i % last.size()];
   }
};

struct Driver {
   const c07::Alphabet & A; const verif::Args & args; verif::Result & res;
   std::set<Hist> dead;          // histories whose worker died (or, for failed checks, that ended in a violation): never extended
   double cpuLimit;
   Driver(const c07::Alphabet & a, const verif::Args & ar, verif::Result & r) : A(a), args(ar), res(r), cpuLimit(1.0) {}   // 1 s CPU: ~1000x the median history (1.0-1.3 ms depending on machine load, see --bench), 50x the slowest one (20 ms); a death is re-confirmed alone with 10 s

   std::string Desc(int pre, const int * cmds, int n) const
   {
      std::string o = verif::Fmt("{\"c07\": 1, \"pre\": %d, \"cmds\": [", pre);   // (the flat replay reader swallows the first key of a nested object)
      for (int k = 0; k < n; k++) o += verif::Fmt("%s%d", k ? "," : "", cmds[k]);
      o += "], \"pre_state\": " + verif::JStr(kPreName[pre]) + ", \"history\": [";
      for (int k = 0; k < n; k++) o += (k ? ", " : "") + verif::JStr("X: " + A.Name(cmds[k]));
      return o + "]}";
   }
   // 0 = run; 1 = a proper prefix is dead; 2 = a proper suffix is dead
   int Pruned(int pre, const int * cmds, int n) const
   {
      if (dead.empty()) return 0;
      for (int len = 1; len < n; len++) if (dead.count(MakeHist(pre, cmds, len))) return 1;
      for (int from = 1; from < n; from++) if (dead.count(MakeHist(pre, cmds + from, n - from))) return 2;
      return 0;
   }

   // runs the space; returns the per-case records (shared memory, caller munmaps via FreeRecs) and appends the Part
   CaseRec * Run(const Space & sp, double absDeadline, bool wantPost)
   {
      const size_t n = sp.Size();
      CaseRec * rec = ShmAlloc<CaseRec>(n);
      mutx::Runner R(args, res, sp.part); R.SetCpuLimit(cpuLimit); R.SetDeadline(absDeadline); R.SetMaxPerKey(1);
      Counters before; memcpy(&before, (const void *)g_cnt, sizeof(before));
      mutx::CaseFn fn = [&](size_t i, mutx::Case & c) {
         int pre, cmds[3], k; sp.Decode(i, pre, cmds, k);
         const int pr = Pruned(pre, cmds, k);
         if (pr) { rec[i].status = 4; if (pr == 1) ADD(skippedPrefix, 1); else ADD(skippedSuffix, 1); c.Outcome("skipped"); return; }
         rec[i].status = 1;
         uint64_t post = 0, ab = 0;
         RunHistory(A, pre, cmds, k, c, wantPost ? &post : NULL, false, wantPost ? &ab : NULL);
         rec[i].post = post; rec[i].abs = ab; rec[i].status = c.failed ? 3 : 2;
      };
      mutx::DescFn desc = [&](size_t i) { int pre, cmds[3], k; sp.Decode(i, pre, cmds, k); return Desc(pre, cmds, k); };
      g_crumbs = true;
      verif::Part & p = R.Run(n, fn, desc);
      g_crumbs = false;
      uint64_t died = 0, failed = 0, skipped = 0, notRun = 0;
      for (size_t i = 0; i < n; i++) {
         const uint8_t st = rec[i].status;
         if (st == 1 || st == 3) { int pre, cmds[3], k; sp.Decode(i, pre, cmds, k); dead.insert(MakeHist(pre, cmds, k)); if (st == 1) died++; else failed++; }
         else if (st == 4) skipped++; else if (st == 0) notRun++;
      }
      p.bound_completed = p.exhaustive ? sp.depth : sp.depth - 1;
      p.transitions = (uint64_t)(g_cnt->commands - before.commands);
      p.evaluations = (uint64_t)(g_cnt->pongs - before.pongs) + (uint64_t)(g_cnt->victimProbes - before.victimProbes);
      p.extra["histories"] = verif::Fmt("%llu", (unsigned long long)n);
      p.extra["histories_executed"] = verif::Fmt("%llu", (unsigned long long)(n - skipped - notRun));
      p.extra["histories_whose_process_died"] = verif::Fmt("%llu", (unsigned long long)died);
      p.extra["histories_with_failed_check"] = verif::Fmt("%llu", (unsigned long long)failed);
      p.extra["skipped_prefix_already_dead"] = verif::Fmt("%llu", (unsigned long long)(g_cnt->skippedPrefix - before.skippedPrefix));
      p.extra["skipped_suffix_already_dead_from_same_pre_state"] = verif::Fmt("%llu", (unsigned long long)(g_cnt->skippedSuffix - before.skippedSuffix));
      p.extra["attacker_commands_executed"] = verif::Fmt("%llu", (unsigned long long)(g_cnt->commands - before.commands));
      p.extra["witness_pongs_checked"] = verif::Fmt("%llu", (unsigned long long)(g_cnt->pongs - before.pongs));
      p.extra["victim_getdata_checked"] = verif::Fmt("%llu", (unsigned long long)(g_cnt->victimProbes - before.victimProbes));
      p.extra["event_loop_passes"] = verif::Fmt("%llu", (unsigned long long)(g_cnt->loopPasses - before.loopPasses));
      p.extra["jettison_commands"] = verif::Fmt("%llu", (unsigned long long)(g_cnt->jettisonCommands - before.jettisonCommands));
      p.extra["jettison_commands_that_edited_the_queue"] = verif::Fmt("%llu", (unsigned long long)(g_cnt->jettisonEditedQueue - before.jettisonEditedQueue));
      p.extra["commands_that_edited_the_ban_or_require_list"] = verif::Fmt("%llu", (unsigned long long)(g_cnt->banListEdits - before.banListEdits));
      p.extra["longest_attacker_queue"] = verif::Fmt("%llu", (unsigned long long)g_cnt->maxQueue);
      p.extra["cpu_limit_per_case_s"] = verif::Fmt("%.2f", cpuLimit);
      fprintf(stderr, "C07 %s: histories=%llu executed=%llu died=%llu failed=%llu skipped=%llu not-run=%llu outcomes=%llu exhaustive=%d part-wall=%.1fs total-wall=%.1fs\n", sp.part.c_str(), (unsigned long long)n,
              (unsigned long long)(n - skipped - notRun), (unsigned long long)died, (unsigned long long)failed, (unsigned long long)skipped, (unsigned long long)notRun, (unsigned long long)p.distinct_outcomes, (int)p.exhaustive, p.wall_s, verif::NowS() - args.t0);
      return rec;
   }
   static void FreeRecs(CaseRec * r, size_t n) { munmap((void *)r, (n ? n : 1) * sizeof(CaseRec)); }
};

static std::string AlphabetText(const c07::Alphabet & A)
{
   return verif::Fmt("%d commands = %d generic (what in {every PR_COMMAND code 1..20 of the reserved range, RESERVED21..32, the two guard values BEGIN/END_PR_COMMANDS, one below and one above the range, client-to-client 1234 and PR_RESULT_DATAITEMS sent by a client} "
                     "x shapes: %d key shapes {absent, *, /*/*/*, x, [x,vx], /*/*/*/*, 300-char clause, '(', '[', '\\', '~', '<->', '', '/', '/*/*', int32-typed, Message-typed} x {no filter, accepting, rejecting what-code filter}; "
                     "keys=* x %d further filter shapes {every leaf kind as accept/reject pair, and/or/xor/nand/min/max trees, 101-deep trees, [A,R], [R,A], node-dependent, bad regex, 7 hostile archives, 2 wrong-typed fields}; "
                     "%d extra-field shapes {PR_NAME_TREE_REQUEST_ID, PR_NAME_MAXDEPTH, PR_NAME_REMOVED_DATAITEMS, a SUBSCRIBE: name, an ordinary name; right- and wrong-typed} x {no keys, keys=*} x {no filter, accepting filter}; "
                     "what codes whose handler never looks at the fields (SETDATATREES, reserved, guards) get the %d filter-less shapes only) + %d command-specific specials (SETPARAMETERS incl. hostile SUBSCRIBE: paths and every recognised parameter, SETDATA paths/payloads/flags, "
                     "INSERTORDEREDDATA, REORDERDATA, REMOVEDATA, GETDATATREES, JETTISON*, PR_COMMAND_BATCH nested 1/2/100/101 deep, a Message nested 101 deep)",
                     A.Size(), (int)A.genWhat.size(), (int)c07::NUM_KEYSHAPES, (int)c07::NUM_FILTSHAPES - 3, (int)c07::NUM_EXTRASHAPES - 1, (int)A.reduced.size(), A.numSpecials);
}
static const char * kOracleText = "after EVERY command of X: server quiescent, node tree structurally sound, W's PING answered by exactly one PONG with its tag, V's GETDATA of its own nodes answered exactly as before, V's subtree/index/parameters/subscriptions unchanged; "
                                  "after the history: V's SETDATA, GETDATA, REMOVEDATA of an own node take effect, one ServerProcessLoop(0) pass with X's queue still full, V and W still attached, W pinged again; "
                                  "every case in a forked worker under a CPU-time watchdog (a handler that never returns = hang, re-confirmed alone with a 10x budget) and ASan/UBSan; X never reads";

int main(int argc, char ** argv)
{
   // allocation-bound (a server is built and torn down per case): a small ASan quarantine keeps the heap warm (see C04)
   if (getenv("VERIF_C07_CHILD") == NULL) {
      const char * old = getenv("ASAN_OPTIONS");
      std::string ao = std::string(old ? old : "") + (old && old[0] ? ":" : "") + "quarantine_size_mb=4";
      setenv("ASAN_OPTIONS", ao.c_str(), 1); setenv("VERIF_C07_CHILD", "1", 1);
      char self[4096]; const ssize_t n = readlink("/proc/self/exe", self, sizeof(self) - 1);
      if (n > 0) { self[n] = 0; execv(self, argv); }
   }
   verif::Args args; args.Parse(argc, argv);
   verif::Result res; res.harness = "C07_robustness";
   g_cnt = ShmAlloc<Counters>(1);
   l1::EnsureSetup();
   const c07::Alphabet A;
   Driver D(A, args, res);
   if (args.kv.count("cpu")) D.cpuLimit = atof(args.kv["cpu"].c_str());

   if (!args.replay.empty()) {
      verif::ReplayDoc d; if (!d.Load(args.replay)) { fprintf(stderr, "cannot read %s\n", args.replay.c_str()); return 3; }
      const int pre = (int)d.Int("pre"); std::vector<long> cl = d.ints["cmds"]; int cmds[3]; int n = 0;
      for (size_t i = 0; i < cl.size() && n < 3; i++) cmds[n++] = (int)cl[i];
      if (pre < 0 || pre >= NUM_PRE || n == 0) { fprintf(stderr, "replay file has no pre/cmds\n"); return 3; }
      for (int i = 0; i < n; i++) if (cmds[i] < 0 || cmds[i] >= A.Size()) { fprintf(stderr, "command index out of range\n"); return 3; }
      mutx::Runner R(args, res, d.Str("part")); R.SetCpuLimit(D.cpuLimit);
      const bool l2 = (d.Str("level") == "L2");
      mutx::CaseFn fn = [&](size_t, mutx::Case & c) { if (l2) RunHistoryL2(A, pre, cmds, n, c, true); else RunHistory(A, pre, cmds, n, c, NULL, true); };
      mutx::DescFn desc = [&](size_t) { return D.Desc(pre, cmds, n); };
      return R.ReplayIndex((size_t)d.Int("index"), fn, desc);
   }

   // ---- start-up self checks (in the parent; also warms the per-type static default items before the workers fork)
   { const std::string e = c07::SelfCheckFilters(); if (!e.empty()) { res.infra_errors.push_back("accept/reject label check: " + e); return res.Write(args); } }
   for (int pre = 0; pre < NUM_PRE; pre++) {
      Scene S; std::string e = BuildPre(S, pre); if (e.empty()) e = PreQueueExpectation(pre, S.w);
      if (!e.empty()) { res.infra_errors.push_back(verif::Fmt("pre-state %d: ", pre) + e + " [queue: " + QueueSummary(S.w, RX) + "]"); return res.Write(args); }
      res.observations.push_back(verif::Fmt("pre-state %d (%s): X's undrained queue = [%s]", pre, kPreName[pre], QueueSummary(S.w, RX).c_str()));
   }
   if (args.kv.count("list")) { for (int c = 0; c < A.Size(); c++) printf("%5d %s%s%s   [%s]\n", c, A.Name(c).c_str(), (A.Flags(c) & c07::SB) ? "  {builder}" : "", (A.Flags(c) & c07::RED) ? " {reduced}" : "", ClassOfMessage(*A.Build(c)(), NULL).c_str()); return 0; }

   if (args.kv.count("bench")) {   // timing aid (justifies the watchdog budget): CPU cost of every depth-1 history from the idle pre-state, run in this process
      double worst = 0; int worstC = -1; struct rusage r0, r1; getrusage(RUSAGE_SELF, &r0); std::vector<double> all;
      for (int c = 0; c < A.Size(); c++) { const double a = verif::NowS(); mutx::Case cc; RunHistory(A, P_IDLE, &c, 1, cc, NULL, false); const double d = verif::NowS() - a; all.push_back(d); if (d > worst) { worst = d; worstC = c; } }
      getrusage(RUSAGE_SELF, &r1); std::sort(all.begin(), all.end());
      const double cpu = (r1.ru_utime.tv_sec - r0.ru_utime.tv_sec) + 1e-6 * (r1.ru_utime.tv_usec - r0.ru_utime.tv_usec) + (r1.ru_stime.tv_sec - r0.ru_stime.tv_sec) + 1e-6 * (r1.ru_stime.tv_usec - r0.ru_stime.tv_usec);
      printf("%d histories from the idle pre-state: %.3f ms CPU each on average, median %.3f ms, 99th percentile %.3f ms (wall); slowest %.3f ms (wall): %s\n", A.Size(), 1000 * cpu / A.Size(), 1000 * all[all.size() / 2], 1000 * all[all.size() * 99 / 100], 1000 * worst, worstC >= 0 ? A.Name(worstC).c_str() : "");
      return 0;
   }
   const bool thorough = args.Thorough();
   const double budget = args.deadline * 0.9;
   std::vector<int> all; for (int c = 0; c < A.Size(); c++) all.push_back(c);
   std::vector<Hist> deadDepth1;   // for the L2 confirmation

   // ---- depth 1: every pre-state x every command
   Space s1; s1.part = "depth1"; s1.depth = 1; s1.last = all;
   for (int pre = 0; pre < NUM_PRE; pre++) { Prefix p; p.pre = pre; p.len = 0; p.cmd[0] = p.cmd[1] = 0; s1.prefixes.push_back(p); }
   // per pre-state: the lowest-numbered command of each distinct ABSTRACT post-state class (see ServerState(abstract)) among the reduced
   // alphabet (redReps), among the commands flagged as state builders (sbReps) and among all commands (allReps); commands that leave the
   // exact canonical state unchanged, and the class of the pre-state itself, are left out (their extensions are the depth-1 cases)
   std::vector<std::vector<int> > redReps(NUM_PRE), sbReps(NUM_PRE), allReps(NUM_PRE);
   uint64_t distinctPost = 0, unchanged = 0;
   {
      CaseRec * rec = D.Run(s1, args.t0 + budget * (thorough ? 0.1 : 0.3), true);
      verif::Part & p = res.parts.back();
      p.rule = verif::Fmt("every history (pre-state, one command) over %d pre-states x ", (int)NUM_PRE) + AlphabetText(A) + "; " + kOracleText;
      { std::string pn = "["; for (int i = 0; i < NUM_PRE; i++) { if (i) pn += ", "; pn += verif::JStr(kPreName[i]); } p.extra["pre_states"] = pn + "]"; }
      for (int pre = 0; pre < NUM_PRE; pre++) {
         // post-state of "no command": computed here, in the parent
         mutx::Case c0; uint64_t own = 0, ownAbs = 0; RunHistory(A, pre, NULL, 0, c0, &own, false, &ownAbs);
         std::set<uint64_t> seenR, seenB, seenA, allPost; seenR.insert(ownAbs); seenB.insert(ownAbs); seenA.insert(ownAbs);
         for (int c = 0; c < A.Size(); c++) {
            const CaseRec & r = rec[(size_t)pre * A.Size() + c];
            if (r.status == 1) { int cc = c; deadDepth1.push_back(MakeHist(pre, &cc, 1)); }
            if (r.status != 2) continue;
            allPost.insert(r.post);
            if (r.post == own) { unchanged++; continue; }
            const int fl = A.Flags(c);
            if ((fl & c07::RED) && seenR.insert(r.abs).second) redReps[pre].push_back(c);
            if ((fl & c07::SB) && seenB.insert(r.abs).second) sbReps[pre].push_back(c);
            if (seenA.insert(r.abs).second) allReps[pre].push_back(c);
         }
         distinctPost += allPost.size();
      }
      p.states = distinctPost;
      p.extra["distinct_canonical_post_states"] = verif::Fmt("%llu", (unsigned long long)distinctPost);
      p.extra["commands_leaving_the_pre_state_unchanged"] = verif::Fmt("%llu", (unsigned long long)unchanged);
      Driver::FreeRecs(rec, s1.Size());
   }
   if (args.kv.count("reps")) {
      for (int pre = 0; pre < NUM_PRE; pre++) {
         printf("pre %d: distinct abstract post-state classes: %d among the reduced alphabet, %d among the builders, %d among all commands\n", pre, (int)redReps[pre].size(), (int)sbReps[pre].size(), (int)allReps[pre].size());
         for (size_t i = 0; i < sbReps[pre].size(); i++) printf("   %5d %s\n", sbReps[pre][i], A.Name(sbReps[pre][i]).c_str());
      }
      return 0;
   }

   // ---- depth 2: (pre-state, representative first command, every second command)
   if (args.WantPart("depth2")) {
      Space s2; s2.part = "depth2"; s2.depth = 2; s2.last = all; std::string counts;
      for (int pre = 0; pre < NUM_PRE; pre++) {
         std::vector<int> first;
         if (!thorough) { if (pre == P_IDLE || pre == P_SLOW3 || pre == P_SELF) first = redReps[pre]; }
         else {
            first = (pre == P_SLOW3 || pre == P_SELF) ? allReps[pre] : sbReps[pre];
            if (pre == P_IDLE || pre == P_SLOW3 || pre == P_SELF) for (size_t i = 0; i < redReps[pre].size(); i++) if (std::find(first.begin(), first.end(), redReps[pre][i]) == first.end()) first.push_back(redReps[pre][i]);   // superset of the quick tier
            std::sort(first.begin(), first.end());
         }
         counts += verif::Fmt("%s%d:%d", pre ? ", " : "", pre, (int)first.size());
         for (size_t i = 0; i < first.size(); i++) { Prefix p; p.pre = pre; p.len = 1; p.cmd[0] = first[i]; p.cmd[1] = 0; s2.prefixes.push_back(p); }
      }
      CaseRec * rec = D.Run(s2, args.t0 + budget * (thorough ? 0.8 : 0.92), false);
      verif::Part & p = res.parts.back();
      { std::string fc = "["; for (size_t i = 0; i < s2.prefixes.size(); i++) { if (i) fc += ", "; fc += (s2.prefixes.size() <= 200) ? verif::JStr(verif::Fmt("pre %d: ", s2.prefixes[i].pre) + A.Name(s2.prefixes[i].cmd[0])) : verif::Fmt("[%d,%d]", s2.prefixes[i].pre, s2.prefixes[i].cmd[0]); }
        p.extra[(s2.prefixes.size() <= 200) ? "first_commands" : "first_commands_as_pre_and_command_index"] = fc + "]"; }
      p.rule = std::string("every history (pre-state, first command, second command); first command = one representative (the lowest-numbered command) of each distinct abstract post-state class reached at depth 1 "
                           "(abstract class = node tree with payloads, subscriber tables and indices + X's subscriptions, default route, flags and limits + X's undrained queue with DATAITEMS / DATATREES / INDEXUPDATED Messages in full and every other queued Message by its what code; "
                           "commands that leave the exact canonical state unchanged and the class of the pre-state itself are left out: their extensions are the depth-1 cases), taken ")
             + (thorough ? "among ALL commands for the pre-states 2 and 3 (the ones with a full queue) and among the commands flagged as state builders for the pre-states 0, 1 and 4, plus the quick tier's representatives"
                         : "among the reduced alphabet (the commands flagged {reduced} in the output of --list; the chosen first commands are listed in extra) for the pre-states 0, 2 and 3")
             + " [first commands per pre-state: " + counts + "]; second command = every one of the " + AlphabetText(A)
             + "; a history is not executed when a proper prefix or a proper suffix of it already died from the same pre-state (counted in extra); " + kOracleText;
      Driver::FreeRecs(rec, s2.Size());
   }

   // ---- depth 3 on the reduced alphabet (thorough): layer 2 first (collects the dead prefixes), then layer 3
   if (thorough && (args.WantPart("reduced-depth2") || args.WantPart("reduced-depth3"))) {
      const std::vector<int> & Rd = A.reducedCmds;
      Space r2; r2.part = "reduced-depth2"; r2.depth = 2; r2.last = Rd;
      for (int pre = 0; pre < NUM_PRE; pre++) for (size_t i = 0; i < Rd.size(); i++) { Prefix p; p.pre = pre; p.len = 1; p.cmd[0] = Rd[i]; p.cmd[1] = 0; r2.prefixes.push_back(p); }
      CaseRec * rec = D.Run(r2, args.t0 + budget * 0.83, false);
      std::string names; for (size_t i = 0; i < Rd.size(); i++) names += (i ? " | " : "") + A.Name(Rd[i]);
      res.parts.back().rule = verif::Fmt("every history (pre-state, a, b) with a, b from the reduced alphabet of %d commands, %d pre-states (layer 2 of the depth-3 space; collects the dead prefixes); reduced alphabet: ", (int)Rd.size(), (int)NUM_PRE) + names + "; same pruning rule; " + kOracleText;
      Driver::FreeRecs(rec, r2.Size());
      Space r3; r3.part = "reduced-depth3"; r3.depth = 3; r3.last = Rd;
      for (int pre = 0; pre < NUM_PRE; pre++) for (size_t i = 0; i < Rd.size(); i++) for (size_t j = 0; j < Rd.size(); j++) { Prefix p; p.pre = pre; p.len = 2; p.cmd[0] = Rd[i]; p.cmd[1] = Rd[j]; r3.prefixes.push_back(p); }
      rec = D.Run(r3, args.t0 + budget * 0.97, false);
      res.parts.back().rule = verif::Fmt("every history (pre-state, a, b, c) with a, b, c from the reduced alphabet of %d commands (listed in part reduced-depth2), %d pre-states; a history is not executed when a proper prefix or a proper suffix of it already died from the same pre-state; ", (int)Rd.size(), (int)NUM_PRE) + kOracleText;
      Driver::FreeRecs(rec, r3.Size());
   }

   // ---- L2: a fixed list of histories + the first histories that died at depth 1, against the socket-stepped server
   if (args.WantPart("l2-sockets")) {
      std::vector<Hist> hs;
      static const char * one[] = { "JETTISONRESULTS keys=* filter=what-in-range(A)", "JETTISONRESULTS keys=* filter=what-out-of-range(R)", "JETTISONRESULTS keys=*", "JETTISONRESULTS", "JETTISONDATATREES", "GETDATA keys=*", "GETDATATREES keys=*",
                                    "REMOVEDATA keys=*", "BATCH x101 [GETDATA /hV/*/*]", "SETPARAMETERS reply-encoding=zlib6", "SETPARAMETERS SUBSCRIBE:v***(300 chars)", "CLIENT2CLIENT keys=/*/*", NULL };
      static const char * two[][2] = { { "GETDATA /hV/*/*", "JETTISONRESULTS keys=/hV/*/vx filter(A)" }, { "GETDATA /hV/*/*", "JETTISONRESULTS keys=/hV/*/vx filter(R)" }, { "BATCH x1 [GETDATA /hV/*/*, GETDATA /hV/*/*]", "JETTISONRESULTS keys=* filter=what-in-range(A)" },
                                       { "SETPARAMETERS reply-encoding=zlib6", "GETDATA keys=*" }, { NULL, NULL } };
      const int l2pre[3] = { P_IDLE, P_SLOW3, P_SELF };
      for (int k = 0; k < 3; k++) {
         for (int i = 0; one[i]; i++) { int c = A.FindByName(one[i]); if (c < 0) { res.infra_errors.push_back(std::string("L2 list: no command named ") + one[i]); return res.Write(args); } hs.push_back(MakeHist(l2pre[k], &c, 1)); }
         for (int i = 0; two[i][0]; i++) { int cc[2] = { A.FindByName(two[i][0]), A.FindByName(two[i][1]) }; if (cc[0] < 0 || cc[1] < 0) { res.infra_errors.push_back(std::string("L2 list: no command named ") + two[i][0] + " / " + two[i][1]); return res.Write(args); } hs.push_back(MakeHist(l2pre[k], cc, 2)); }
      }
      const size_t fixedCount = hs.size(); int added = 0;
      for (size_t i = 0; i < deadDepth1.size() && added < 6; i++) if (deadDepth1[i][0] != P_PRIV && std::find(hs.begin(), hs.end(), deadDepth1[i]) == hs.end()) { hs.push_back(deadDepth1[i]); added++; }
      mutx::Runner R(args, res, "l2-sockets"); R.SetCpuLimit(D.cpuLimit); R.SetDeadline(args.t0 + budget); R.SetMaxPerKey(1);
      Counters before; memcpy(&before, (const void *)g_cnt, sizeof(before));
      mutx::CaseFn fn = [&](size_t i, mutx::Case & c) { RunHistoryL2(A, hs[i][0], &hs[i][1], (int)hs[i].size() - 1, c, false); };
      mutx::DescFn desc = [&](size_t i) { std::string d = D.Desc(hs[i][0], &hs[i][1], (int)hs[i].size() - 1); return d.substr(0, d.size() - 1) + ", \"level\": \"L2\"}"; };
      g_crumbs = true; verif::Part & p = R.Run(hs.size(), fn, desc); g_crumbs = false;
      p.bound_completed = 2;
      p.transitions = g_cnt->commands - before.commands; p.evaluations = (g_cnt->pongs - before.pongs) + (g_cnt->victimProbes - before.victimProbes);
      p.extra["event_loop_cycles_after_attacker_commands"] = verif::Fmt("%llu", (unsigned long long)(g_cnt->loopPasses - before.loopPasses));
      p.extra["histories_from_the_fixed_list"] = verif::Fmt("%llu", (unsigned long long)fixedCount);
      p.extra["histories_that_died_at_depth1_replayed_here"] = verif::Fmt("%d", added);
      p.rule = verif::Fmt("confirmation at the socket level, not an enumeration of its own: %d fixed histories (pre-states 0, 2, 3 x 12 one-command and 4 two-command histories around the edit-the-queue handlers, deep batches, reply encoding, long patterns) "
                          "plus the first (at most 6) histories whose process died at depth 1, each replayed against the same real ReflectServer with every session attached over a real AF_UNIX socket pair (TCPSocketDataIO + MessageIOGateway on both ends), "
                          "the server advanced by ServerProcessLoop(0) cycles only; X never reads and its connection is first filled (tiny kernel buffers + 32 KB PINGs) so that results pile up in the server-side gateway queue; after every command of X: two event-loop cycles must return, "
                          "W's PING written to its socket must be answered by one PONG read from that socket, V's GETDATA of its own nodes must be answered as before, V and W still attached; forked worker, CPU-time watchdog, ASan/UBSan", (int)fixedCount);
      fprintf(stderr, "C07 l2-sockets: histories=%llu outcomes=%llu exhaustive=%d part-wall=%.1fs total-wall=%.1fs\n", (unsigned long long)hs.size(), (unsigned long long)p.distinct_outcomes, (int)p.exhaustive, p.wall_s, verif::NowS() - args.t0);
   }

   res.observations.push_back("X holds no KICK privilege in any pre-state (a privileged KICK legitimately ends other sessions); the privileged pre-state grants only the ban/unban privileges and routes ADDBANS/REMOVEBANS/ADDREQUIRES/REMOVEREQUIRES to a real FilterSessionFactory");
   res.observations.push_back("Messages nested deeper than 101 levels are not generated here (finding F7, stack exhaustion at ~20000 levels, belongs to C02)");
   res.observations.push_back("generated ordered-child names (I<n>) are compared without their number in canonical post-states (they depend on the recycled DataNode's counter, finding F15)");
   return res.Write(args);
}
