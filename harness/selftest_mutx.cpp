// Self-test of the MUTX runner: every kind of fatal outcome must be attributed to the right case, deterministically.
// VBUILD: libs=meter
#include "engines/mutx/mutx.h"
static volatile int sink;
int main(int argc, char ** argv)
{
   verif::Args args; args.Parse(argc, argv); verif::Result res; res.harness = "selftest_mutx";
   mutx::Runner R(args, res, "selftest"); R.SetCpuLimit(0.3);
   mutx::CaseFn fn = [](size_t i, mutx::Case & c) {
      switch (i % 40) {
      case 3: c.Fail("wrong-answer", "expected 1 got 2"); break;
      case 7: { char * p = (char *)malloc(4); sink = p[4 + (int)(i / 1000)]; free(p); break; }
      case 11: abort();
      case 13: for (;;) sink++;
      case 17: { mutx::MeterBegin(); char * p = new (std::nothrow) char[100000000]; delete[] p; void * q = malloc(5000); free(q); mutx::MeterEnd(); if (mutx::g_meter.biggest >= 100000000) c.Fail("alloc", verif::Fmt("requested %lld peak %lld", mutx::g_meter.biggest, mutx::g_meter.peak)); break; }
      case 19: { int x = 2147483647; x += (int)(i % 40) - 18; sink = x; break; }
      default: c.Outcome(verif::Fmt("%d", (int)(i % 5))); break;
      }
   };
   mutx::DescFn desc = [](size_t i) { return verif::Fmt("{\"i\": %llu}", (unsigned long long)i); };
   if (!args.replay.empty()) { verif::ReplayDoc d; d.Load(args.replay); return R.ReplayIndex((size_t)d.Int("index"), fn, desc); }
   R.Run(200, fn, desc);
   return res.Write(args);
}
