// Usage example and smoke test of harness/reflector_l1.h (the shared in-process reflector driver).
// Attaches two sessions, subscribes, sets data, departs, and prints what each client received plus the canonical dump.
// Exit 0 iff the few expectations at the bottom hold and a second, independent run in the same process gives the same text
// (determinism of the driver: pinned ids, no clock, no leftovers from the first world).
//
//    bin/vbuild asan reflector_l1_selftest && build/asan/h/reflector_l1_selftest [-v]
#include "harness/reflector_l1.h"
#include <stdio.h>

using namespace l1;

static std::string Received(L1World & w, int role, const char * when)
{
   std::string o;
   std::vector<MessageRef> msgs = w.Drain(role);
   for (size_t i = 0; i < msgs.size(); i++) o += std::string("  ") + (char)('A' + role) + " <- " + MsgText(msgs[i]) + "   [" + when + "]\n";
   return o;
}

static std::string Run()
{
   std::string log;
   L1World w;
   // roles: 0 = A (publisher, host hA, id 1), 1 = B (subscriber, host hA, id 2)
   if (!w.Attach(0, "hA", 1) || !w.Attach(1, "hA", 2)) return "attach failed";

   w.Inject(1, Subscribe("/*/*/x"));                                                     // B: SUBSCRIBE:/*/*/x (initial fetch: nothing yet)
   log += Received(w, 1, "after B subscribes to /*/*/x");
   w.Inject(0, SetData("x", Payload(1)));                                                // A: x = {v:1}
   log += Received(w, 1, "after A sets x=1");
   w.Inject(0, SetData("x/y", Payload(2)));                                              // A: x/y = {v:2}   (not matched by /*/*/x)
   log += Received(w, 1, "after A sets x/y=2");
   w.Inject(1, Subscribe("*/y", Int32Filter("v", muscle::Int32QueryFilter::OP_EQUAL_TO, 2)));  // B: SUBSCRIBE:*/y with filter v==2 (implicit /*/* prefix)
   log += Received(w, 1, "after B subscribes to */y [v==2]");
   w.Inject(0, Batch(SetData("x", Payload(3)), RemoveData(Keys("x/*"))));                // A: batch [x=3, remove x/*]
   log += Received(w, 1, "after A's batch");
   w.Inject(1, GetParameters());
   log += Received(w, 1, "B's parameters (volatile fields stripped)");
   log += "quiescent: '" + w.CheckQuiescent() + "' invariants: '" + w.CheckTreeInvariants() + "'\n";
   log += "--- dump before A leaves\n" + w.Dump();

   std::vector<MessageRef> last = w.Depart(0);                                           // A leaves: EndSession + one ServerProcessLoop(0)
   log += Received(w, 1, "after A departed");
   log += "--- dump after A left\n" + w.Dump();
   log += "A attached: " + std::string(w.IsAttached(0) ? "yes" : "no") + ", A's root was " + w.Root(0) + "\n";

   // a session can come back under the same id
   if (!w.Attach(0, "hA", 1)) return "re-attach failed";
   w.Inject(0, SetData("x", Payload(4)));
   log += Received(w, 1, "after A came back and set x=4");
   return log;
}

// second scenario: ordered index (C13), undrained queues + role mask in the dump (C06/C07), routed Message (C05), GETPARAMETERS
static std::string Run2()
{
   std::string log;
   L1World w;
   w.GrantPrivilege(muscle::PR_PRIVILEGE_KICK, "hB");                       // sessions from host hB may kick (must precede Attach)
   if (!w.Attach(0, "hA", 1) || !w.Attach(1, "hB", 2) || !w.Attach(2, "hB", 3)) return "attach failed";
   w.Inject(1, Subscribe("/hA/*/n"));                                       // B watches A's index node n
   w.Inject(0, SetData("n", EmptyPayload(7)));
   MessageRef ins = InsertOrderedData(Keys("n")); AddData(ins, "append", Payload(10)); AddData(ins, "append", Payload(11));
   w.Inject(0, ins);                                                        // two generated children I0, I1 (names depend on recycled DataNode state: F15)
   std::vector<std::string> idx; w.IndexOf("/hA/1/n", idx);
   log += "index has " + U32((uint32_t)idx.size()) + " entries\n";
   if (idx.size() == 2) {
      w.Inject(0, ReorderData("n/" + idx[1], idx[0]));                      // move the second before the first
      log += "canonical path of the first generated child: " + w.CanonPath("/hA/1/n/" + idx[0]) + "\n";
   }
   std::vector<MessageRef> got = w.Drain(1);
   for (size_t i = 0; i < got.size(); i++) {
      std::vector<IndexOp> iops;
      if (ParseIndexUpdated(got[i], iops)) for (size_t k = 0; k < iops.size(); k++) log += std::string("  B index op ") + iops[k].op + " at " + U32(iops[k].index) + " key " + w.CanonPath(iops[k].nodePath + "/" + iops[k].key) + "\n";
      else log += "  B <- " + MsgText(got[i]) + "\n";
   }
   w.Inject(2, Keyed(1234, Keys("/hA/*/n")));                               // C routes a client-to-client Message to the owner of /hA/*/n
   w.Inject(0, Ping(5));                                                    // A does not drain: both stay queued
   DumpOpts o; o.queues = true; o.roleMask = (1u << 0);                     // only A's session and subtree
   log += "--- dump restricted to A, with its undrained queue\n" + w.Dump(o);
   log += "invariants: '" + w.CheckTreeInvariants() + "'\n";
   w.Inject(2, Keyed(muscle::PR_COMMAND_KICK, Keys("/hA/*")));              // C kicks every session on host hA: A becomes a lame duck ...
   const uint32_t gone = w.Step();                                          // ... and is detached by the next event-loop pass
   log += "roles detached by the server: mask " + U32(gone) + ", A attached: " + (w.IsAttached(0) ? "yes" : "no") + "\n";
   got = w.Drain(1);   // (the PR_RESULT_INDEXUPDATED that comes with it names the generated children by their raw, history-dependent names: not printed)
   for (size_t i = 0; i < got.size(); i++) if (got[i]()->what == muscle::PR_RESULT_DATAITEMS) log += "  B <- " + MsgText(got[i]) + "   [after A was kicked]\n";
   return log;
}

int main(int argc, char ** argv)
{
   const bool verbose = (argc > 1);
   std::string a = Run() + Run2();
   std::string b = Run() + Run2();
   if (verbose || a != b) fputs(a.c_str(), stdout);
   int bad = 0;
   if (a != b) { printf("FAIL: second run differs from the first\n%s", b.c_str()); bad++; }
   const char * expect[] = {
      "B <- {R_DATAITEMS '/hA/1/x':msg=[{1886483556 'v':i32=[1]}]}   [after A sets x=1]",
      "B <- {R_DATAITEMS '/hA/1/x/y':msg=[{1886483556 'v':i32=[2]}]}   [after B subscribes to */y [v==2]]",
      "B <- {R_DATAITEMS '!SnRd':str=['/hA/1/x/y']}   [after A's batch]",
      "B <- {R_DATAITEMS '!SnRd':str=['/hA/1/x']}   [after A departed]",
      "'/hA/1/x' d={1886483556 'v':i32=[3]} s={2:1}",
      "B <- {R_DATAITEMS '/hA/1/x':msg=[{1886483556 'v':i32=[4]}]}   [after A came back and set x=4]",
      "quiescent: '' invariants: ''",
      "index has 2 entries",
      "canonical path of the first generated child: /hA/1/n/I#0",
      "B index op i at 0 key /hA/1/n/I#0",
      "B index op i at 1 key /hA/1/n/I#1",
      "B index op r at 1 key /hA/1/n/I#1",
      "queued {1234 '!SnKy':str=['/hA/*/n']}",
      "queued {R_PONG 'tag':i32=[5]}",
      "'/hA/1/n' d={7} s={2:1} idx=['I#1','I#0']",
      "roles detached by the server: mask 1, A attached: no",
      "B <- {R_DATAITEMS '!SnRd':str=['/hA/1/n']}   [after A was kicked]",
   };
   for (size_t i = 0; i < sizeof(expect) / sizeof(expect[0]); i++) if (a.find(expect[i]) == std::string::npos) { printf("FAIL: expected line not found: %s\n", expect[i]); bad++; }
   printf("reflector_l1 selftest: %s\n", bad ? "FAILED" : "ok");
   return bad ? 1 : 0;
}
