// C06 -- A session can alter only its own subtree, and leaves no trace when it departs.
//
// Three parts, all on a real muscle::ReflectServer with real StorageReflectSessions (harness/reflector_l1.h):
//
//  1. "isolation" (SEQX, this file).  Victims V1 (/hV/1) and V2 (/hW/2) hold data, an ordered index, parameters, filtered and
//     unfiltered subscriptions and (V1) an undrained outgoing queue.  The attacker X (id 3, NO privilege bits granted) sends every
//     history of commands from the alphabet below -- every what code of the reserved PR_COMMAND range, with arguments aimed at the
//     victims: absolute paths, '..' clauses, wildcards at node / session / host level, privileged codes, PR_NAME_PRIVILEGE_BITS,
//     forged PR_NAME_SESSION, forged PR_RESULT_* Messages, batches.  After EVERY command (followed by one real event-loop pass):
//       - no session was detached, nobody is a lame duck;
//       - the canonical dump of everything OUTSIDE X's subtree (host nodes, the victims' subtrees with payloads and index order,
//         the victims' parameters / subscriptions / routing flags / node counts), with X's own subscriber marks removed, is
//         byte-identical to the one taken before X's first command;
//       - V1's undrained queue still starts with the same Messages;
//       - everything a victim was newly sent is a documented effect: a PR_RESULT_DATAITEMS / PR_RESULT_INDEXUPDATED that names
//         only nodes under X's root (the victim subscribed to them), or a client-to-client Message (what code outside the
//         PR_COMMAND and PR_RESULT ranges) whose PR_NAME_SESSION, if it is a string, names X;
//       - every privileged command (KICK, ADDBANS, REMOVEBANS, ADDREQUIRES, REMOVEREQUIRES) whose privilege X lacks was bounced with
//         PR_RESULT_ERRORACCESSDENIED; X's PR_NAME_PRIVILEGE_BITS never gains a bit and never exceeds what the server granted at
//         attach time (nothing in three start states; ADDBANS+REMOVEBANS but not KICK in the fourth).
//  2. "departure" (SEQX, differential; harness/C06_departure.h).
//  3. "cut-at-every-byte" (socket-stepped enumeration; harness/C06_cut.h).
#include "harness/reflector_l1.h"
#include "harness/C06_util.h"
#include "engines/seqx/seqx.h"
#include <functional>

using namespace seqx;
using l1::MessageRef;
using l1::Keys;

// ================================================================================================ part 1: isolation
namespace iso {

enum { V1 = 0, V2 = 1, RX = 2 };
static const uint32_t kXId = 3;
static const char * kV1Root = "/hV/1";
static const char * kV2Root = "/hW/2";

struct World {
   l1::L1World w;
   std::string xHost, xRoot;
   std::string baseline;                  // victim dump before X's first command
   std::vector<std::string> v1Queue;      // V1's undrained queue (flattened), must stay a prefix of its queue
   uint32_t nodesOutsideX;
   int32_t grantedPriv;                   // privilege bits the SERVER granted X at attach time (0 in all start states but one)
   std::string initError, initKey;
   std::string outcome;                   // what X / V1 / V2 were sent by the last command
   verif::Hash128 hist;                   // running hash of (start, commands so far): key of g_cleanPrefixes
   World() : nodesOutsideX(0), grantedPriv(0) { hist.a = hist.b = 0; }
};

// Lazy comparison (as in C04): the verdict for a history prefix is a pure function of the prefix, and SEQX replays the same prefix
// once per alphabet symbol.  A process remembers the prefixes it has executed AND compared clean; re-executing such a prefix
// only carries the state forward (inject, event-loop pass, queues trimmed) without re-taking the dumps.
static std::set<verif::Hash128> g_cleanPrefixes;

struct Op {
   std::string name, kind;                // kind = command family + argument class (part of every violation key)
   int nPrivileged;                       // privileged sub-commands, packed 100*KICK + 10*(ADDBANS|ADDREQUIRES) + (REMOVEBANS|REMOVEREQUIRES): each one whose privilege X lacks must be bounced with PR_RESULT_ERRORACCESSDENIED
   std::function<MessageRef(World &)> make;
};

static MessageRef Priv(int32_t bits) { MessageRef m = l1::SetParameters(); (void) m()->AddInt32(PR_NAME_PRIVILEGE_BITS, bits); return m; }
static MessageRef Routed(uint32_t what, const std::vector<std::string> * keys, const char * forgedSession)
{
   MessageRef m = l1::NewMsg(what);
   if (keys) l1::AddKeys(m, *keys);
   if (forgedSession) (void) m()->AddString(PR_NAME_SESSION, forgedSession);
   (void) m()->AddInt32("tag", 77);
   return m;
}
static MessageRef ForgedDataItems(const std::vector<std::string> * keys)
{
   MessageRef m = l1::NewMsg(muscle::PR_RESULT_DATAITEMS);
   if (keys) l1::AddKeys(m, *keys);
   (void) m()->AddString(PR_NAME_REMOVED_DATAITEMS, "/hV/1/x");
   (void) m()->AddMessage("/hV/1/x/y", l1::Payload(99));
   return m;
}
static std::vector<std::string> K4(const char * a, const char * b = NULL, const char * c = NULL, const char * d = NULL)
{
   std::vector<std::string> v; v.push_back(a); if (b) v.push_back(b); if (c) v.push_back(c); if (d) v.push_back(d); return v;
}
static std::string IndexName(World & W, const char * node, size_t i, const char * dflt)
{
   std::vector<std::string> names; if (W.w.IndexOf(node, names) && i < names.size()) return names[i]; return dflt;
}

struct Model {
   std::vector<Op> ops;
   struct Start { std::string name, xHost; std::vector<std::string> prefix; int32_t grant; Start() : grant(0) {} };
   std::vector<Start> starts;

   void Add(const std::string & name, const std::string & kind, int nPriv, const std::function<MessageRef(World &)> & f) { Op o; o.name = "X: " + name; o.kind = kind; o.nPrivileged = nPriv; o.make = f; ops.push_back(o); }
   int FindOp(const std::string & name) const { for (size_t i = 0; i < ops.size(); i++) if (ops[i].name == name) return (int)i; fprintf(stderr, "C06: no op named '%s'\n", name.c_str()); exit(3); }

   Model()
   {
      typedef World & WR;
      // ---- simplest first: own, legitimate commands (they produce the documented effects at the victims)
      Add("SETDATA x=v1", "SETDATA:own", 0, [](WR) { return l1::SetData("x", l1::Payload(1)); });
      Add("SETDATA n={} (own index node)", "SETDATA:own", 0, [](WR) { return l1::SetData("n", l1::EmptyPayload(7)); });
      Add("INSERTORDEREDDATA n <- v1 (own)", "INSERTORDEREDDATA:own", 0, [](WR) { MessageRef m = l1::InsertOrderedData(Keys("n")); l1::AddData(m, "append", l1::Payload(1)); return m; });
      Add("REMOVEDATA x (own)", "REMOVEDATA:own", 0, [](WR) { return l1::RemoveData(Keys("x")); });
      Add("REMOVEDATA * (own)", "REMOVEDATA:relative-wildcard", 0, [](WR) { return l1::RemoveData(Keys("*")); });
      // ---- SETDATA aimed at the victims
      Add("SETDATA /hV/1/x=v9", "SETDATA:absolute-path", 0, [](WR) { return l1::SetData("/hV/1/x", l1::Payload(9)); });
      Add("SETDATA ../1/x=v9", "SETDATA:dotdot-path", 0, [](WR) { return l1::SetData("../1/x", l1::Payload(9)); });
      Add("SETDATA ../../hW/2/y=v9", "SETDATA:dotdot-path", 0, [](WR) { return l1::SetData("../../hW/2/y", l1::Payload(9)); });
      Add("SETDATA *=v9 and */x=v1 (literal star names)", "SETDATA:wildcard-name", 0, [](WR) { MessageRef m = l1::SetData("*", l1::Payload(9)); l1::AddData(m, "*/x", l1::Payload(1)); return m; });
      Add("SETDATA n/k=v1 flags ADDTOINDEX", "SETDATA:add-to-index", 0, [](WR) { return l1::SetData("n/k", l1::Payload(1), l1::Flags(muscle::SETDATANODE_FLAG_ADDTOINDEX)); });
      Add("SETDATA {session='1', x/y=v2, /hW/2/x=v9}", "SETDATA:forged-session", 0, [](WR) { MessageRef m = l1::SetData("x/y", l1::Payload(2)); l1::AddData(m, "/hW/2/x", l1::Payload(9)); (void) m()->AddString(PR_NAME_SESSION, "1"); return m; });
      // ---- REMOVEDATA aimed at the victims
      Add("REMOVEDATA /hV/1/x", "REMOVEDATA:absolute-path", 0, [](WR) { return l1::RemoveData(Keys("/hV/1/x")); });
      Add("REMOVEDATA /*/*/*", "REMOVEDATA:absolute-wildcard", 0, [](WR) { return l1::RemoveData(Keys("/*/*/*")); });
      Add("REMOVEDATA ../1/x | ../../hV/1/x | ../*", "REMOVEDATA:dotdot-path", 0, [](WR) { return l1::RemoveData(Keys("../1/x", "../../hV/1/x", "../*")); });
      Add("REMOVEDATA /hV/1 | /hV | /hW/* (session and host level)", "REMOVEDATA:session-or-host-level", 0, [](WR) { return l1::RemoveData(Keys("/hV/1", "/hV", "/hW/*")); });
      Add("REMOVEDATA /hV/1/n/* quietly, session='1'", "REMOVEDATA:quiet-forged-session", 0, [](WR) { MessageRef m = l1::RemoveData(Keys("/hV/1/n/*"), true); (void) m()->AddString(PR_NAME_SESSION, "1"); return m; });
      Add("REMOVEDATA */* | */*/* | */*/*/*", "REMOVEDATA:relative-wildcard", 0, [](WR) { return l1::RemoveData(Keys("*/*", "*/*/*", "*/*/*/*")); });
      // ---- ordered data aimed at the victims
      Add("INSERTORDEREDDATA /hV/1/n <- v9 before V1's first entry", "INSERTORDEREDDATA:absolute-path", 0, [](WR W) { MessageRef m = l1::InsertOrderedData(Keys("/hV/1/n")); l1::AddData(m, IndexName(W, "/hV/1/n", 0, "I0"), l1::Payload(9)); return m; });
      Add("INSERTORDEREDDATA /*/*/n | ../1/n | * <- v9", "INSERTORDEREDDATA:wildcard-or-dotdot", 0, [](WR) { MessageRef m = l1::InsertOrderedData(Keys("/*/*/n", "../1/n", "*")); l1::AddData(m, "append", l1::Payload(9)); return m; });
      Add("REORDERDATA /hV/1/n/* -> remove from index", "REORDERDATA:absolute-path", 0, [](WR) { return l1::ReorderData("/hV/1/n/*", PR_NAME_REMOVE_FROM_INDEX); });
      Add("REORDERDATA /hV/1/n/<2nd> before <1st>; /*/*/idx/b before a", "REORDERDATA:absolute-path", 0, [](WR W) { MessageRef m = l1::ReorderData("/hV/1/n/" + IndexName(W, "/hV/1/n", 1, "I1"), IndexName(W, "/hV/1/n", 0, "I0")); l1::AddReorder(m, "/*/*/idx/b", "a"); return m; });
      Add("REORDERDATA ../1/n/* | ../../hW/2/idx/* -> remove; n/* -> to end (own)", "REORDERDATA:dotdot-or-own", 0, [](WR) { MessageRef m = l1::ReorderData("../1/n/*", PR_NAME_REMOVE_FROM_INDEX); l1::AddReorder(m, "../../hW/2/idx/*", PR_NAME_REMOVE_FROM_INDEX); l1::AddReorder(m, "n/*", "-"); return m; });
      // ---- parameters
      Add("SETPARAMETERS !Priv=-1", "SETPARAMETERS:privilege-bits", 0, [](WR) { return Priv(-1); });
      Add("SETPARAMETERS SUBSCRIBE:/hV/1/x", "SETPARAMETERS:subscribe-victim", 0, [](WR) { return l1::Subscribe("/hV/1/x"); });
      Add("SETPARAMETERS SUBSCRIBE:/*/*/* [v==1]", "SETPARAMETERS:subscribe-victim", 0, [](WR) { return l1::Subscribe("/*/*/*", l1::Int32Filter("v", muscle::Int32QueryFilter::OP_EQUAL_TO, 1)); });
      Add("SETPARAMETERS SUBSCRIBE:/* + SUBSCRIBE:/hV/* + SUBSCRIBE:/*/*/n/* (host, session, index children)", "SETPARAMETERS:subscribe-host-and-session-level", 0, [](WR) { MessageRef m = l1::SetParameters(); l1::AddSubscribe(m, "/*"); l1::AddSubscribe(m, "/hV/*"); l1::AddSubscribe(m, "/*/*/n/*"); return m; });
      Add("SETPARAMETERS !Self, !MxUp=1, !Enc=zlib6", "SETPARAMETERS:own-flags", 0, [](WR) { MessageRef m = l1::SetParameters(); l1::AddFlagParam(m, PR_NAME_REFLECT_TO_SELF); l1::AddMaxUpdateItems(m, 1); (void) m()->AddInt32(PR_NAME_REPLY_ENCODING, muscle::MUSCLE_MESSAGE_ENCODING_ZLIB_6); return m; });
      Add("SETPARAMETERS !SnKy=[/hV/1, /hW/*] (default route)", "SETPARAMETERS:default-route", 0, [](WR) { MessageRef m = l1::SetParameters(); l1::AddDefaultRoute(m, Keys("/hV/1", "/hW/*")); return m; });
      Add("SETPARAMETERS !Root=/hV/1, session='1', !Mns=0, !Mcn=0, !Dsub, !G2N, !N2G", "SETPARAMETERS:forged-identity", 0, [](WR) { MessageRef m = l1::SetParameters(); (void) m()->AddString(PR_NAME_SESSION_ROOT, "/hV/1"); (void) m()->AddString(PR_NAME_SESSION, "1"); (void) m()->AddInt32(PR_NAME_MAX_NODES_PER_SESSION, 0); (void) m()->AddInt32(PR_NAME_MAX_CHILDREN_PER_NODE, 0); l1::AddFlagParam(m, PR_NAME_DISABLE_SUBSCRIPTIONS); l1::AddFlagParam(m, PR_NAME_ROUTE_GATEWAY_TO_NEIGHBORS); l1::AddFlagParam(m, PR_NAME_ROUTE_NEIGHBORS_TO_GATEWAY); return m; });
      Add("REMOVEPARAMETERS *", "REMOVEPARAMETERS:wildcard", 0, [](WR) { return l1::RemoveParameters(Keys("*")); });
      Add("REMOVEPARAMETERS SUBSCRIBE:* | !Priv | /hV/1/*", "REMOVEPARAMETERS:wildcard", 0, [](WR) { return l1::RemoveParameters(Keys("SUBSCRIBE:*", PR_NAME_PRIVILEGE_BITS, "/hV/1/*")); });
      // ---- privileged codes without privilege
      Add("KICK /hV/1", "KICK", 100, [](WR) { return l1::Keyed(muscle::PR_COMMAND_KICK, Keys("/hV/1")); });
      Add("KICK /*/* | * | /hV/*/x", "KICK", 100, [](WR) { return l1::Keyed(muscle::PR_COMMAND_KICK, Keys("/*/*", "*", "/hV/*/x")); });
      Add("ADDBANS * | hV | hW", "ADDBANS", 10, [](WR) { return l1::Keyed(muscle::PR_COMMAND_ADDBANS, Keys("*", "hV", "hW")); });
      Add("REMOVEBANS *", "REMOVEBANS", 1, [](WR) { return l1::Keyed(muscle::PR_COMMAND_REMOVEBANS, Keys("*")); });
      Add("ADDREQUIRES nobody", "ADDREQUIRES", 10, [](WR) { return l1::Keyed(muscle::PR_COMMAND_ADDREQUIRES, Keys("nobody")); });
      Add("REMOVEREQUIRES *", "REMOVEREQUIRES", 1, [](WR) { return l1::Keyed(muscle::PR_COMMAND_REMOVEREQUIRES, Keys("*")); });
      // ---- client-to-client Messages
      Add("Message 1234 to /hV/1 with session='1'", "route:forged-session", 0, [](WR) { std::vector<std::string> k = Keys("/hV/1"); return Routed(1234, &k, "1"); });
      Add("Message 1234 to /*/*/x | /hW/2 with session=['2','1']", "route:forged-session", 0, [](WR) { std::vector<std::string> k = Keys("/*/*/x", "/hW/2"); MessageRef m = Routed(1234, &k, "2"); (void) m()->AddString(PR_NAME_SESSION, "1"); return m; });
      Add("Message 1234 without keys (default route / broadcast) with session='1'", "route:forged-session", 0, [](WR) { return Routed(1234, NULL, "1"); });
      Add("Message what=0 to /*/*", "route:boundary-what-code", 0, [](WR) { std::vector<std::string> k = Keys("/*/*"); return Routed(0, &k, NULL); });
      Add("Message what=BEGIN_PR_COMMANDS-1 to /*/*", "route:boundary-what-code", 0, [](WR) { std::vector<std::string> k = Keys("/*/*"); return Routed((uint32_t)muscle::BEGIN_PR_COMMANDS - 1, &k, NULL); });
      Add("Message what=END_PR_COMMANDS+1 to /*/*", "route:boundary-what-code", 0, [](WR) { std::vector<std::string> k = Keys("/*/*"); return Routed((uint32_t)muscle::END_PR_COMMANDS + 1, &k, NULL); });
      Add("forged PR_RESULT_DATAITEMS {removed /hV/1/x, /hV/1/x/y=v99} to /hW/2", "route:forged-PR_RESULT_DATAITEMS", 0, [](WR) { std::vector<std::string> k = Keys("/hW/2"); return ForgedDataItems(&k); });
      Add("forged PR_RESULT_DATAITEMS without keys (broadcast)", "route:forged-PR_RESULT_DATAITEMS", 0, [](WR) { return ForgedDataItems(NULL); });
      Add("forged PR_RESULT_INDEXUPDATED {/hV/1/n: c} to /*/*", "route:forged-PR_RESULT_INDEXUPDATED", 0, [](WR) { MessageRef m = l1::Keyed(muscle::PR_RESULT_INDEXUPDATED, Keys("/*/*")); (void) m()->AddString("/hV/1/n", "c"); return m; });
      Add("forged PR_RESULT_PARAMETERS / PR_RESULT_ERRORACCESSDENIED to /hV/1 (batch)", "route:forged-PR_RESULT_other", 0, [](WR) { MessageRef a = l1::Keyed(muscle::PR_RESULT_PARAMETERS, Keys("/hV/1")); (void) a()->AddInt32(PR_NAME_PRIVILEGE_BITS, -1); return l1::Batch(a, l1::Keyed(muscle::PR_RESULT_ERRORACCESSDENIED, Keys("/hV/1"))); });
      // ---- read-only and queue commands, unimplemented and reserved codes (every remaining what code of the PR_COMMAND range)
      Add("NOOP", "NOOP", 0, [](WR) { return l1::Noop(); });
      Add("PING session='1'", "PING", 0, [](WR) { MessageRef m = l1::Ping(5); (void) m()->AddString(PR_NAME_SESSION, "1"); return m; });
      Add("GETPARAMETERS", "GETPARAMETERS", 0, [](WR) { return l1::GetParameters(); });
      Add("GETDATA /*/*/* | /hV/1/n/* | /*/*", "GETDATA", 0, [](WR) { return l1::GetData(Keys("/*/*/*", "/hV/1/n/*", "/*/*")); });
      Add("GETDATATREES /hV/1 | /hW id t1", "GETDATATREES", 0, [](WR) { return l1::GetDataTrees(Keys("/hV/1", "/hW"), "t1"); });
      Add("SETDATATREES /hV/1 (unimplemented)", "SETDATATREES", 0, [](WR) { MessageRef m = l1::Keyed(muscle::PR_COMMAND_SETDATATREES, Keys("/hV/1")); MessageRef t = l1::NewMsg(0); (void) t()->AddMessage(PR_NAME_NODEDATA, l1::Payload(9)); (void) m()->AddMessage("/hV/1/x", t); return m; });
      Add("JETTISONRESULTS (all)", "JETTISONRESULTS", 0, [](WR) { return l1::JettisonResults(); });
      Add("JETTISONRESULTS /hW/*/* | /*/*/*", "JETTISONRESULTS", 0, [](WR) { std::vector<std::string> k = Keys("/hW/*/*", "/*/*/*"); return l1::JettisonResults(&k); });
      Add("JETTISONDATATREES (no id) ; t*", "JETTISONDATATREES", 0, [](WR) { return l1::Batch(l1::JettisonDataTrees(), l1::JettisonDataTrees("t*")); });
      for (uint32_t c = (uint32_t)muscle::PR_COMMAND_RESERVED21; c <= (uint32_t)muscle::PR_COMMAND_RESERVED32; c++)
         Add(verif::Fmt("reserved command %u (+%u) /hV/1/x", (unsigned)c, (unsigned)(c - (uint32_t)muscle::BEGIN_PR_COMMANDS)), "RESERVED", 0, [c](WR) { MessageRef m = l1::Keyed(c, Keys("/hV/1/x")); (void) m()->AddMessage("/hV/1/x", l1::Payload(9)); return m; });
      Add("what=BEGIN_PR_COMMANDS /hV/1/x", "RESERVED", 0, [](WR) { return l1::Keyed((uint32_t)muscle::BEGIN_PR_COMMANDS, Keys("/hV/1/x")); });
      Add("what=END_PR_COMMANDS /hV/1/x", "RESERVED", 0, [](WR) { return l1::Keyed((uint32_t)muscle::END_PR_COMMANDS, Keys("/hV/1/x")); });
      // ---- batches
      Add("BATCH[SETPARAMETERS !Priv=-1, KICK /*/*, ADDBANS *]", "BATCH:privilege-then-kick", 110, [](WR) { std::vector<MessageRef> v; v.push_back(Priv(-1)); v.push_back(l1::Keyed(muscle::PR_COMMAND_KICK, Keys("/*/*"))); v.push_back(l1::Keyed(muscle::PR_COMMAND_ADDBANS, Keys("*"))); return l1::Batch(v); });
      Add("BATCH[SETDATA ../1/x, REMOVEDATA /*/*/*, REMOVEDATA */*/*]", "BATCH:set-then-remove", 0, [](WR) { std::vector<MessageRef> v; v.push_back(l1::SetData("../1/x", l1::Payload(9))); v.push_back(l1::RemoveData(Keys("/*/*/*"))); v.push_back(l1::RemoveData(Keys("*/*/*"))); return l1::Batch(v); });
      Add("BATCH[GETDATA /*/*/*, GETDATATREES /hV/1 id t1, JETTISONRESULTS /hW/*/*, JETTISONDATATREES t1]", "BATCH:get-then-jettison", 0, [](WR) { std::vector<MessageRef> v; v.push_back(l1::GetData(Keys("/*/*/*"))); v.push_back(l1::GetDataTrees(Keys("/hV/1"), "t1")); std::vector<std::string> k = Keys("/hW/*/*"); v.push_back(l1::JettisonResults(&k)); v.push_back(l1::JettisonDataTrees("t1")); return l1::Batch(v); });
      Add("BATCH[BATCH[KICK *], INSERTORDEREDDATA /hV/1/n, REORDERDATA /hV/1/n/* remove, REMOVEDATA /hV/1/n]", "BATCH:nested", 100, [](WR) { std::vector<MessageRef> in; in.push_back(l1::Keyed(muscle::PR_COMMAND_KICK, Keys("*"))); std::vector<MessageRef> v; v.push_back(l1::Batch(in)); MessageRef ins = l1::InsertOrderedData(Keys("/hV/1/n")); l1::AddData(ins, "append", l1::Payload(9)); v.push_back(ins); v.push_back(l1::ReorderData("/hV/1/n/*", PR_NAME_REMOVE_FROM_INDEX)); v.push_back(l1::RemoveData(Keys("/hV/1/n"))); return l1::Batch(v); });
      Add("BATCH[SUBSCRIBE:/*/*/*, REMOVEPARAMETERS *, forged PR_RESULT_DATAITEMS to /hV/1]", "BATCH:subscribe-unsubscribe-forge", 0, [](WR) { std::vector<MessageRef> v; v.push_back(l1::Subscribe("/*/*/*")); v.push_back(l1::RemoveParameters(Keys("*"))); std::vector<std::string> k = Keys("/hV/1"); v.push_back(ForgedDataItems(&k)); return l1::Batch(v); });

      // ---- start states
      { Start s; s.name = "X on V1's host (/hV/3), no data"; s.xHost = "hV"; starts.push_back(s); }
      { Start s; s.name = "X alone on host hX, holding x, n with one ordered child, subscribed to /*/*/* [v==1] and to host/session level, reflect-to-self"; s.xHost = "hX";
        s.prefix.push_back("X: SETDATA x=v1"); s.prefix.push_back("X: SETDATA n={} (own index node)"); s.prefix.push_back("X: INSERTORDEREDDATA n <- v1 (own)");
        s.prefix.push_back("X: SETPARAMETERS SUBSCRIBE:/*/*/* [v==1]"); s.prefix.push_back("X: SETPARAMETERS SUBSCRIBE:/* + SUBSCRIBE:/hV/* + SUBSCRIBE:/*/*/n/* (host, session, index children)"); s.prefix.push_back("X: SETPARAMETERS !Self, !MxUp=1, !Enc=zlib6"); starts.push_back(s); }
      { Start s; s.name = "X on V2's host (/hW/3), holding ../1/x, literal-star nodes and a default route aimed at the victims"; s.xHost = "hW";
        s.prefix.push_back("X: SETDATA ../1/x=v9"); s.prefix.push_back("X: SETDATA *=v9 and */x=v1 (literal star names)"); s.prefix.push_back("X: SETPARAMETERS !SnKy=[/hV/1, /hW/*] (default route)"); starts.push_back(s); }
      { Start s; s.name = "X alone on host hP, granted PR_PRIVILEGE_ADDBANS and PR_PRIVILEGE_REMOVEBANS by the server but NOT PR_PRIVILEGE_KICK"; s.xHost = "hP"; s.grant = (1 << muscle::PR_PRIVILEGE_ADDBANS) | (1 << muscle::PR_PRIVILEGE_REMOVEBANS); starts.push_back(s); }
   }

   typedef iso::World World;
   int NumStarts() const { return (int)starts.size(); }
   int NumOps() const { return (int)ops.size(); }
   std::string OpName(int op) const { return ops[op].name; }
   std::string StartName(int s) const { return starts[s].name; }

   static std::string VictimDump(const World & W)
   {
      l1::DumpOpts o; o.roleMask = (1u << V1) | (1u << V2);
      return c06::StripSubscriber(W.w.Dump(o), kXId);
   }

   // the victims' state: built with plain injections (not part of the explored alphabet)
   static bool SetupVictims(World & W)
   {
      l1::L1World & w = W.w;
      if (!w.Attach(V1, "hV", 1) || !w.Attach(V2, "hW", 2)) return false;
      // V1: x, x/y, an index node n with two generated children in non-insertion order, parameters, two subscriptions
      w.Inject(V1, l1::SetData("x", l1::Payload(1)));
      w.Inject(V1, l1::SetData("x/y", l1::Payload(2)));
      w.Inject(V1, l1::SetData("n", l1::EmptyPayload(7)));
      { MessageRef ins = l1::InsertOrderedData(Keys("n")); l1::AddData(ins, "append", l1::Payload(10)); l1::AddData(ins, "append", l1::Payload(11)); w.Inject(V1, ins); }
      { std::vector<std::string> idx; if (!w.IndexOf("/hV/1/n", idx) || idx.size() != 2) return false; w.Inject(V1, l1::ReorderData("n/" + idx[1], idx[0])); }
      { MessageRef p = l1::SetParameters(); l1::AddSubscribe(p, "/*/*/x"); l1::AddSubscribe(p, "/*/*/n/*", l1::Int32Filter("v", muscle::Int32QueryFilter::OP_NOT_EQUAL_TO, 1)); l1::AddMaxUpdateItems(p, 40); (void) p()->AddString("colour", "red"); w.Inject(V1, p); }
      // V2: x, y, an index node idx with two NAMED ordered children, a filtered catch-all subscription, a subscription to everybody's n, reflect-to-self
      w.Inject(V2, l1::SetData("x", l1::Payload(2)));
      w.Inject(V2, l1::SetData("y", l1::Payload(1)));
      w.Inject(V2, l1::SetData("idx", l1::EmptyPayload(8)));
      w.Inject(V2, l1::SetData("idx/a", l1::Payload(1), l1::Flags(muscle::SETDATANODE_FLAG_ADDTOINDEX)));
      w.Inject(V2, l1::SetData("idx/b", l1::Payload(2), l1::Flags(muscle::SETDATANODE_FLAG_ADDTOINDEX)));
      { MessageRef p = l1::SetParameters(); l1::AddSubscribe(p, "/*/*/*", l1::Int32Filter("v", muscle::Int32QueryFilter::OP_EQUAL_TO, 1)); l1::AddSubscribe(p, "n"); l1::AddFlagParam(p, PR_NAME_REFLECT_TO_SELF); w.Inject(V2, p); }
      (void) w.Drain(V1); (void) w.Drain(V2);
      // V1 leaves Messages unread in its outgoing queue: PR_RESULT_DATAITEMS (+ the PR_RESULT_INDEXUPDATED of V2's index), a PR_RESULT_DATATREES (id t1) and a PR_RESULT_PONG
      w.Inject(V1, l1::GetData(Keys("/hW/*/*")));
      w.Inject(V1, l1::GetDataTrees(Keys("/hW/2/idx"), "t1"));
      w.Inject(V1, l1::Ping(1));
      return true;
   }

   void Init(World & W, int start) const
   {
      const Start & S = starts[start];
      W.xHost = S.xHost; W.xRoot = "/" + S.xHost + "/" + l1::U32(kXId);
      W.hist.a = verif::Mix64(0x150ULL + (uint64_t)start * 977); W.hist.b = verif::Mix64(W.hist.a ^ 0x9e3779b97f4a7c15ULL);
      W.grantedPriv = S.grant;
      for (int p = 0; p < muscle::PR_NUM_PRIVILEGES; p++) if (S.grant & (1 << p)) W.w.GrantPrivilege(p, S.xHost);   // must precede Attach; matches X's host only
      if (!SetupVictims(W) || !W.w.Attach(RX, S.xHost, kXId)) { W.initError = "could not build the victims"; W.initKey = "infra"; return; }
      (void) W.w.Step();
      (void) W.w.Drain(V2); (void) W.w.Drain(RX);
      { muscle::Queue<MessageRef> & q = W.w.S(V1)->GetGateway()()->GetOutgoingMessageQueue(); for (uint32_t i = 0; i < q.GetNumItems(); i++) W.v1Queue.push_back(l1::Flat(q[i])); }
      if (W.v1Queue.size() < 3) { W.initError = "V1's baseline queue holds fewer than 3 Messages"; W.initKey = "infra"; return; }
      W.baseline = VictimDump(W);
      W.nodesOutsideX = NodesOutsideX(W);
      std::string q = W.w.CheckQuiescent(); if (q.empty()) q = W.w.CheckTreeInvariants();
      if (!q.empty()) { W.initError = "victim setup: " + q; W.initKey = "infra"; return; }
      std::string msg, key;
      for (size_t i = 0; i < S.prefix.size(); i++) {
         const int st = Apply(W, FindOp(S.prefix[i]), msg, key);
         if (st != SEQX_OK) { W.initError = "start-state prefix op '" + S.prefix[i] + "': " + msg; W.initKey = (st < 0) ? "infra" : key; return; }
      }
   }

   static uint32_t NodesOutsideX(const World & W)
   {
      muscle::DataNode * root = W.w.RootNode(); if (root == NULL) return 0;
      uint32_t all = c06::CountNodes(*root);
      muscle::DataNode * x = W.w.IsAttached(RX) ? W.w.S(RX)->GetSessionNode()() : NULL;
      return all - (x ? c06::CountNodes(*x) : 0);
   }

   // is this Message something a victim may legitimately be sent as a consequence of a command of X?  "" = yes
   static std::string JudgeVictimMessage(const World & W, const MessageRef & m)
   {
      l1::DataItems d; std::vector<l1::IndexOp> io;
      // (field names that are not node paths -- PR_NAME_KEYS and the like in a forged copy -- say nothing about any node)
      if (l1::ParseDataItems(m, d)) {
         for (size_t k = 0; k < d.removed.size(); k++) if (!c06::IsUnder(d.removed[k], W.xRoot)) return "PR_RESULT_DATAITEMS announcing the removal of " + d.removed[k] + ", a node outside X's subtree";
         for (size_t k = 0; k < d.sets.size(); k++) if (d.sets[k].first[0] == '/' && !c06::IsUnder(d.sets[k].first, W.xRoot)) return "PR_RESULT_DATAITEMS carrying a value for " + d.sets[k].first + ", a node outside X's subtree";
         return "";
      }
      if (l1::ParseIndexUpdated(m, io)) {
         for (size_t k = 0; k < io.size(); k++) if (io[k].nodePath[0] == '/' && !c06::IsUnder(io[k].nodePath, W.xRoot)) return "PR_RESULT_INDEXUPDATED for " + io[k].nodePath + ", a node outside X's subtree";
         return "";
      }
      if (c06::InResultRange(m()->what)) return "a Message with the server-reserved what code " + l1::WhatText(m()->what);
      if (c06::InCommandRange(m()->what)) return "a Message with the command what code " + l1::WhatText(m()->what);
      const std::string sf = c06::SessionField(m);
      if (!sf.empty() && sf != l1::U32(kXId)) return "a client-to-client Message whose PR_NAME_SESSION says '" + sf + "' although session " + l1::U32(kXId) + " sent it";
      return "";
   }
   static std::string WhatClass(const MessageRef & m) { return c06::InResultRange(m()->what) ? l1::WhatText(m()->what) : (c06::InCommandRange(m()->what) ? l1::WhatText(m()->what) : std::string("client-message")); }

   int Apply(World & W, int opi, std::string & msg, std::string & key) const
   {
      if (!W.initError.empty()) { msg = "start state is not clean: " + W.initError; key = "start-state:" + W.initKey; return (W.initKey == "infra") ? -1 : SEQX_VIOLATION; }
      const Op & o = ops[opi];
      l1::L1World & w = W.w;
      W.outcome.clear();
      W.hist.a = verif::Mix64(W.hist.a + (uint64_t)opi + 1); W.hist.b = verif::Mix64((W.hist.b ^ ((uint64_t)opi + 0x51ed27ULL)) * 0x100000001b3ULL);
      const int32_t privBefore = w.S(RX)->GetParametersConst().GetInt32(PR_NAME_PRIVILEGE_BITS);
      w.Inject(RX, o.make(W));
      const uint32_t gone = w.Step();   // one real event-loop pass: a kicked session would be detached here
      if (g_cleanPrefixes.count(W.hist) && !gone) {   // known clean: carry the state only
         muscle::Queue<MessageRef> & qq = w.S(V1)->GetGateway()()->GetOutgoingMessageQueue();
         while (qq.GetNumItems() > W.v1Queue.size()) (void) qq.RemoveTail();
         (void) w.Drain(V2); (void) w.Drain(RX);
         return SEQX_OK;
      }
      if (gone) { key = "session-detached:" + o.kind; msg = verif::Fmt("after X's command the server detached session(s) with role mask %u (V1=1, V2=2, X=4)", (unsigned)gone); return SEQX_VIOLATION; }
      std::string q = w.CheckQuiescent();
      if (!q.empty()) { key = "not-quiescent:" + o.kind; msg = q; return SEQX_VIOLATION; }
      q = w.CheckTreeInvariants();
      if (!q.empty()) { key = "tree-invariant:" + o.kind; msg = q; return SEQX_VIOLATION; }
      // ---- the victims' state
      const std::string now = VictimDump(W);
      if (now != W.baseline) { key = "victim-state-changed:" + o.kind; msg = "the state outside X's subtree (X's own subscriber marks removed) differs from the state before X's first command: " + c06::FirstDiff(W.baseline, now); return SEQX_VIOLATION; }
      const uint32_t outside = NodesOutsideX(W);
      if (outside != W.nodesOutsideX) { key = "node-count-outside-attacker-changed:" + o.kind; msg = verif::Fmt("number of nodes outside X's subtree went from %u to %u", (unsigned)W.nodesOutsideX, (unsigned)outside); return SEQX_VIOLATION; }
      // ---- V1's undrained queue is still there; what came after it is new
      std::vector<MessageRef> fresh[2];
      {
         muscle::Queue<MessageRef> & qq = w.S(V1)->GetGateway()()->GetOutgoingMessageQueue();
         bool same = qq.GetNumItems() >= W.v1Queue.size();
         for (size_t i = 0; same && i < W.v1Queue.size(); i++) same = (l1::Flat(qq[(uint32_t)i]) == W.v1Queue[i]);
         if (!same) { key = "victim-queue-changed:" + o.kind; msg = "V1's undrained outgoing queue (PR_RESULT_DATAITEMS, PR_RESULT_INDEXUPDATED, PR_RESULT_DATATREES t1, PR_RESULT_PONG) no longer starts with the same Messages"; return SEQX_VIOLATION; }
         for (uint32_t i = (uint32_t)W.v1Queue.size(); i < qq.GetNumItems(); i++) fresh[V1].push_back(qq[i]);
         while (qq.GetNumItems() > W.v1Queue.size()) (void) qq.RemoveTail();
      }
      fresh[V2] = w.Drain(V2);
      for (int v = 0; v < 2; v++) for (size_t i = 0; i < fresh[v].size(); i++) {
         W.outcome += std::string(v == V1 ? "V1<-" : "V2<-") + c06::ScrubGen(l1::MsgText(fresh[v][i])) + "\n";
         const std::string why = JudgeVictimMessage(W, fresh[v][i]);
         if (!why.empty()) { key = "victim-received-" + WhatClass(fresh[v][i]) + ":" + o.kind; msg = std::string("victim ") + (v == V1 ? "V1" : "V2") + " was sent " + why + ": " + l1::MsgText(fresh[v][i]); return SEQX_VIOLATION; }
      }
      // ---- X's own inbox: privileged commands refused, no privilege acquired
      std::vector<MessageRef> xin = w.Drain(RX);
      int denied = 0;
      for (size_t i = 0; i < xin.size(); i++) { W.outcome += "X<-" + c06::ScrubGen(l1::MsgText(xin[i])) + "\n"; if (xin[i]()->what == muscle::PR_RESULT_ERRORACCESSDENIED) denied++; }
      const int expectDenied = (o.nPrivileged / 100) * ((privBefore & (1 << muscle::PR_PRIVILEGE_KICK)) ? 0 : 1) + ((o.nPrivileged / 10) % 10) * ((privBefore & (1 << muscle::PR_PRIVILEGE_ADDBANS)) ? 0 : 1) + (o.nPrivileged % 10) * ((privBefore & (1 << muscle::PR_PRIVILEGE_REMOVEBANS)) ? 0 : 1);
      if (denied != expectDenied) { key = "privileged-command-not-refused:" + o.kind; msg = verif::Fmt("X holds privilege bits 0x%x; %d of its privileged command(s) lack the privilege, %d PR_RESULT_ERRORACCESSDENIED received", (unsigned)privBefore, expectDenied, denied); return SEQX_VIOLATION; }
      // privilege bits come from the server only: a client command may at most drop them (REMOVEPARAMETERS of its own parameter), never add one
      const int32_t privAfter = w.S(RX)->GetParametersConst().GetInt32(PR_NAME_PRIVILEGE_BITS);
      if ((privAfter & ~privBefore) != 0 || (privAfter & ~W.grantedPriv) != 0) { key = "privilege-bits-set-by-client:" + o.kind; msg = verif::Fmt("X's " PR_NAME_PRIVILEGE_BITS " went from 0x%x to 0x%x (granted by the server: 0x%x)", (unsigned)privBefore, (unsigned)privAfter, (unsigned)W.grantedPriv); return SEQX_VIOLATION; }
      for (int p = 0; p < muscle::PR_NUM_PRIVILEGES; p++) if (w.S(RX)->HasPrivilege(p) && !(W.grantedPriv & (1 << p))) { key = "privilege-acquired:" + o.kind; msg = verif::Fmt("HasPrivilege(%d) is true although the server never granted it", p); return SEQX_VIOLATION; }
      if (g_cleanPrefixes.size() > 2000000) g_cleanPrefixes.clear();
      g_cleanPrefixes.insert(W.hist);
      return SEQX_OK;
   }

   void Canon(const World & W, std::string & out) const { out = W.initError.empty() ? W.w.Dump() : ("INIT-ERROR " + W.initError); }
   void Outcome(const World & W, std::string & out) const { out = W.outcome; }
};

static std::string Rule(const Model & m, int depth)
{
   return verif::Fmt("every sequence of <=%d commands of the unprivileged session X from a %d-command alphabet, from %d start states (X on V1's host / alone on a host / on V2's host / alone with the ban privileges; with and without own data, subscriptions and a default route), each replayed on a fresh real ReflectServer; "
                     "alphabet = every what code of the PR_COMMAND range (SETPARAMETERS incl. !Priv / forged !Root / default route / host- and session-level SUBSCRIBE:, GETPARAMETERS, REMOVEPARAMETERS, SETDATA, GETDATA, REMOVEDATA, JETTISONRESULTS, INSERTORDEREDDATA, PING, KICK, ADDBANS, REMOVEBANS, BATCH (also nested), NOOP, REORDERDATA, ADDREQUIRES, REMOVEREQUIRES, SETDATATREES, GETDATATREES, JETTISONDATATREES, RESERVED21..32, both range guards) "
                     "(X holds no privilege in 3 start states and only the two ban privileges, not KICK, in the 4th) with arguments aimed at the victims (absolute paths /hV/1/x, /*/*/*, ../1/x, ../../hW/2/y, *, */*/*, session- and host-level paths, literal-star names, quiet flag, forged PR_NAME_SESSION), client-to-client Messages with forged PR_NAME_SESSION and boundary what codes, forged PR_RESULT_* Messages; "
                     "after every command + one ServerProcessLoop(0) pass: no session detached, canonical dump of everything outside X's subtree (X's own subscriber marks stripped) identical to the baseline, V1's undrained queue intact, every Message newly sent to a victim is a notice about a node under X's root or a client-to-client Message naming X, privileged commands lacking their privilege bounced with PR_RESULT_ERRORACCESSDENIED, no privilege bit gained; "
                     "states deduplicated on the full canonical server dump (tree with payloads, index order, per-node subscriber tables, per-session subscriptions, routes, parameters, flags, node counts; generated names by rank)",
                     depth, m.NumOps(), m.NumStarts());
}

}  // namespace iso

#include "harness/C06_departure.h"
#include "harness/C06_cut.h"

int main(int argc, char ** argv)
{
   // see C04: a small ASan quarantine makes the allocation-bound replays ~30% cheaper; one re-exec to set it
   if (getenv("VERIF_C06_CHILD") == NULL) {
      const char * old = getenv("ASAN_OPTIONS");
      std::string ao = std::string(old ? old : "") + (old && old[0] ? ":" : "") + "quarantine_size_mb=4";
      setenv("ASAN_OPTIONS", ao.c_str(), 1); setenv("VERIF_C06_CHILD", "1", 1);
      char self[4096]; const ssize_t n = readlink("/proc/self/exe", self, sizeof(self) - 1);
      if (n > 0) { self[n] = 0; execv(self, argv); }
   }
   verif::Args args; args.Parse(argc, argv);
   verif::Result res; res.harness = "C06_isolation";
   iso::Model isoModel;
   dep::Model depModel;
   if (!args.replay.empty()) {
      verif::ReplayDoc d; if (!d.Load(args.replay)) { fprintf(stderr, "cannot read %s\n", args.replay.c_str()); return 3; }
      if (d.Str("part") == "departure") { seqx::Explorer<dep::Model> ex(depModel, args, res, "departure"); return ex.ReplayFile(d); }
      if (d.Str("part") == "cut-at-every-byte") return cut::ReplayFile(d);
      seqx::Explorer<iso::Model> ex(isoModel, args, res, "isolation"); return ex.ReplayFile(d);
   }
   int idepth = args.Thorough() ? 4 : 3, ddepth = args.Thorough() ? 4 : 3;
   uint64_t cap = 3000000;
   if (args.kv.count("idepth")) idepth = atoi(args.kv["idepth"].c_str());
   if (args.kv.count("ddepth")) ddepth = atoi(args.kv["ddepth"].c_str());
   if (args.kv.count("cap")) cap = (uint64_t)atoll(args.kv["cap"].c_str());
   const double budget = args.deadline * 0.9;
   if (args.WantPart("cut-at-every-byte")) {
      cut::Run(args, res, args.t0 + budget * 0.1);
      const verif::Part & p = res.parts.back();
      fprintf(stderr, "C06 cut-at-every-byte: cases=%llu exhaustive=%d outcomes=%llu wall=%.1fs\n", (unsigned long long)p.transitions, (int)p.exhaustive, (unsigned long long)p.distinct_outcomes, verif::NowS() - args.t0);
   }
   if (args.WantPart("isolation") && idepth > 0) {
      seqx::Explorer<iso::Model> ex(isoModel, args, res, "isolation");
      ex.SetDeadline(args.t0 + budget * 0.45); ex.SetMaxStates(cap);
      seqx::Stats S = ex.Run(idepth);
      res.parts.back().rule = iso::Rule(isoModel, idepth);
      fprintf(stderr, "C06 isolation: states=%llu transitions=%llu depth=%d exhaustive=%d outcomes=%llu violating=%llu wall=%.1fs\n", (unsigned long long)S.states, (unsigned long long)S.transitions, S.depthCompleted, (int)S.exhaustive, (unsigned long long)S.distinctOutcomes, (unsigned long long)S.violations, verif::NowS() - args.t0);
   }
   if (args.WantPart("departure") && ddepth > 0) {
      seqx::Explorer<dep::Model> ex(depModel, args, res, "departure");
      ex.SetDeadline(args.t0 + budget); ex.SetMaxStates(cap);
      seqx::Stats S = ex.Run(ddepth);
      res.parts.back().rule = dep::Rule(depModel, ddepth);
      fprintf(stderr, "C06 departure: states=%llu transitions=%llu depth=%d exhaustive=%d outcomes=%llu violating=%llu wall=%.1fs\n", (unsigned long long)S.states, (unsigned long long)S.transitions, S.depthCompleted, (int)S.exhaustive, (unsigned long long)S.distinctOutcomes, (unsigned long long)S.violations, verif::NowS() - args.t0);
   }
   res.observations.push_back("part 1: ban / require lists live in a session factory; the in-process server has none, so for ADDBANS / REMOVEBANS / ADDREQUIRES / REMOVEREQUIRES the oracle is the PR_RESULT_ERRORACCESSDENIED bounce and the absence of any state change");
   res.observations.push_back("part 1: a PR_NAME_SESSION field of a non-string type is outside the compared domain (ReplaceString() only rewrites string fields); only string forgeries are judged");
   res.observations.push_back("generated ordered-child names (I<n>) are compared by rank / scrubbed (finding F15: they depend on recycled DataNode state)");
   return res.Write(args);
}
