// Reflector L1 -- shared in-process, socket-free driver for the reflector properties (C04, C05, C06, C07, C13).
//
//   * a real muscle::ReflectServer whose event loop is never run, except for single ServerProcessLoop(0) passes (Step());
//   * real StorageReflectSession subclasses (l1::Session: GenerateHostName() returns a harness-chosen host) attached with
//     AddNewSession(ref, ConstSocketRef()) -- null socket -- and given a MessageIOGateway WITHOUT a DataIO, so "what the
//     server sent this client" is exactly the gateway's outgoing Message queue, which the harness drains;
//   * commands are injected at the gateway-receiver seam (DoInputBegins / CallMessageReceivedFromGateway / DoInputEnds),
//     i.e. the after-message subscription flush and the batch hooks run exactly as they do under a real gateway;
//   * departure = EndSession() + one ServerProcessLoop(0) pass (which only clears the lame ducks);
//   * session ids are a function of the ROLE: this header #includes reflector/AbstractReflectSession.cpp into the harness
//     TU (the linker then does not pull that archive member) and sets the file-static _sessionIDCounter before each
//     session is constructed.  THEREFORE: include this header from exactly one TU per executable.
//   * a canonical, process-independent text dump of the server state read in-process (harnesses are compiled with
//     -fno-access-control): tree, per-node subscriber tables, ordered indices, per-session subscriptions / parameters /
//     flags.  Generated ordered-child names (I0, I1, ...) are canonicalised by rank; everything that echoes real time,
//     memory, server uptime or the (process-history dependent) server session id is excluded by name.
//
// Everything here is deterministic: no wall clock is read on any path whose result is compared (ServerProcessLoop reads
// the clock only for pulse scheduling / cycle start stamps, which are not dumped), the PRNG is pinned at link time.
//
// API in short (namespace l1; usage example: harness/reflector_l1_selftest.cpp):
//   L1World w;                               fresh server (build one per replay); ~L1World detaches everything
//   w.GrantPrivilege(priv, hostPattern)      before Attach: PR_PRIVILEGE_* for sessions of matching hosts
//   w.Attach(role, host, sessionId)          role 0..7; session node = /host/sessionId; w.Root(role) gives that path
//   w.makeSession = fn                       optional factory for a harness-specific subclass of l1::Session
//   w.Inject(role, msg) / InjectMany         deliver Message(s) as the gateway would (fresh Message per injection)
//   w.Drain(role) -> vector<MessageRef>      everything sent to that client since the last Drain; w.Pending(role) = queue length
//   w.Depart(role)                           drain + EndSession + Step(); w.Step() = ServerProcessLoop(0), returns roles the server detached (KICK)
//   w.S(role)                                the Session* (protected/private members of StorageReflectSession are reachable)
//   w.Dump(DumpOpts) / CanonPath / IndexOf / WalkTree / RootNode / CheckQuiescent / CheckTreeInvariants    in-process reads
//   builders: SetData AddData RemoveData GetData GetDataTrees GetParameters SetParameters AddSubscribe AddSubscribeQuietly
//             AddMaxUpdateItems AddFlagParam AddDefaultRoute Subscribe Unsubscribe UnsubscribeAll RemoveParameters EscapeParamName
//             Batch InsertOrderedData ReorderData AddReorder Ping Noop JettisonResults JettisonDataTrees Keyed(what, keys, filters)
//             Payload(v) EmptyPayload(what) Flags(bits) FilterArchive Int32Filter WhatCodeFilter Keys(a[,b[,c]]) NewMsg(what)
//   parsing:  ParseDataItems ApplyDataItems ParseIndexUpdated MsgText Flat IsVolatileFieldName RankGeneratedNames IsGeneratedName
#ifndef VERIF_REFLECTOR_L1_H
#define VERIF_REFLECTOR_L1_H

#include "reflector/AbstractReflectSession.cpp"   // deliberately the .cpp: gives this TU muscle::_sessionIDCounter
#include "reflector/ReflectServer.h"
#include "reflector/StorageReflectSession.h"
#include "reflector/StorageReflectConstants.h"
#include "iogateway/MessageIOGateway.h"
#include "regex/QueryFilter.h"
#include "regex/StringMatcher.h"
#include "system/SetupSystem.h"
#include "syslog/SysLog.h"

#include <stdint.h>
#include <stdio.h>
#include <stdlib.h>
#include <string>
#include <vector>
#include <map>
#include <set>
#include <algorithm>

namespace l1 {

using muscle::Message;
using muscle::MessageRef;
using muscle::ConstMessageRef;
using muscle::String;
using muscle::DataNode;
using muscle::StorageReflectSession;

enum { MAX_ROLES = 8 };

// ------------------------------------------------------------------------------------------------ process-wide setup
// A CompleteSetupSystem is needed once per process.  It is created on first use and never destroyed (workers _exit()).
// Console logging is switched off (set VERIF_L1_LOG=1 to see muscle's log output while debugging a replay).
static inline void EnsureSetup()
{
   static muscle::CompleteSetupSystem * css = NULL;
   if (css == NULL) {
      css = new muscle::CompleteSetupSystem;
      const char * e = getenv("VERIF_L1_LOG");
      muscle::SetConsoleLogLevel((e && e[0] == '1') ? muscle::MUSCLE_LOG_DEBUG : muscle::MUSCLE_LOG_NONE);
   }
}

// ------------------------------------------------------------------------------------------------ text helpers
static inline std::string Hex(const void * p, size_t n)
{
   static const char * d = "0123456789abcdef"; std::string o; const unsigned char * s = (const unsigned char *)p;
   o.reserve(n * 2);
   for (size_t i = 0; i < n; i++) { o += d[s[i] >> 4]; o += d[s[i] & 15]; }
   return o;
}
static inline std::string Quote(const std::string & s)
{
   std::string o = "'";
   for (size_t i = 0; i < s.size(); i++) { unsigned char c = (unsigned char)s[i]; if (c < 0x20 || c >= 0x7f || c == '\'' || c == '\\') { char b[8]; snprintf(b, sizeof(b), "\\x%02x", c); o += b; } else o += (char)c; }
   return o + "'";
}
static inline std::string U32(uint32_t v) { char b[16]; snprintf(b, sizeof(b), "%u", (unsigned)v); return b; }

// flattened bytes of a Message (the identity used for payload comparison)
static inline std::string Flat(const Message & m)
{
   std::string o; o.resize(m.FlattenedSize());
   if (!o.empty()) m.FlattenToBytes((uint8_t *)&o[0], (uint32_t)o.size());
   return o;
}
static inline std::string Flat(const ConstMessageRef & m) { return m() ? Flat(*m()) : std::string(); }

// Field names whose values echo real time / memory / uptime / the random server session id: never compared, never dumped.
static inline bool IsVolatileFieldName(const String & n)
{
   return (n == PR_NAME_SERVER_MEM_AVAILABLE) || (n == PR_NAME_SERVER_MEM_USED) || (n == PR_NAME_SERVER_MEM_MAX) || (n == PR_NAME_SERVER_UPTIME)
       || (n == PR_NAME_SERVER_CURRENTTIMEUTC) || (n == PR_NAME_SERVER_CURRENTTIMELOCAL) || (n == PR_NAME_SERVER_RUNTIME) || (n == PR_NAME_SERVER_SESSION_ID);
}

static inline std::string WhatText(uint32_t w)
{
   switch (w) {
      case muscle::PR_COMMAND_SETPARAMETERS: return "SETPARAMETERS"; case muscle::PR_COMMAND_GETPARAMETERS: return "GETPARAMETERS";
      case muscle::PR_COMMAND_REMOVEPARAMETERS: return "REMOVEPARAMETERS"; case muscle::PR_COMMAND_SETDATA: return "SETDATA";
      case muscle::PR_COMMAND_GETDATA: return "GETDATA"; case muscle::PR_COMMAND_REMOVEDATA: return "REMOVEDATA";
      case muscle::PR_COMMAND_JETTISONRESULTS: return "JETTISONRESULTS"; case muscle::PR_COMMAND_INSERTORDEREDDATA: return "INSERTORDEREDDATA";
      case muscle::PR_COMMAND_PING: return "PING"; case muscle::PR_COMMAND_KICK: return "KICK"; case muscle::PR_COMMAND_ADDBANS: return "ADDBANS";
      case muscle::PR_COMMAND_REMOVEBANS: return "REMOVEBANS"; case muscle::PR_COMMAND_BATCH: return "BATCH"; case muscle::PR_COMMAND_NOOP: return "NOOP";
      case muscle::PR_COMMAND_REORDERDATA: return "REORDERDATA"; case muscle::PR_COMMAND_ADDREQUIRES: return "ADDREQUIRES";
      case muscle::PR_COMMAND_REMOVEREQUIRES: return "REMOVEREQUIRES"; case muscle::PR_COMMAND_SETDATATREES: return "SETDATATREES";
      case muscle::PR_COMMAND_GETDATATREES: return "GETDATATREES"; case muscle::PR_COMMAND_JETTISONDATATREES: return "JETTISONDATATREES";
      case muscle::PR_RESULT_PARAMETERS: return "R_PARAMETERS"; case muscle::PR_RESULT_DATAITEMS: return "R_DATAITEMS";
      case muscle::PR_RESULT_ERRORUNIMPLEMENTED: return "R_ERRORUNIMPLEMENTED"; case muscle::PR_RESULT_INDEXUPDATED: return "R_INDEXUPDATED";
      case muscle::PR_RESULT_PONG: return "R_PONG"; case muscle::PR_RESULT_ERRORACCESSDENIED: return "R_ERRORACCESSDENIED";
      case muscle::PR_RESULT_DATATREES: return "R_DATATREES"; case muscle::PR_RESULT_NOOP: return "R_NOOP";
      default: break;
   }
   return U32(w);
}

// Canonical readable text of a Message: {WHAT name:type=[v,..] ...}.  Fields in the Message's own order (sortFields=false)
// or sorted by name (sortFields=true); nested Messages recursively; volatile server fields skipped when stripVolatile.
static inline std::string MsgText(const Message & m, bool sortFields = false, bool stripVolatile = true)
{
   std::string o = "{" + WhatText(m.what);
   std::vector<String> names;
   for (muscle::MessageFieldNameIterator it = m.GetFieldNameIterator(); it.HasData(); it++) names.push_back(it.GetFieldName());
   if (sortFields) std::sort(names.begin(), names.end(), [](const String & a, const String & b) { return strcmp(a(), b()) < 0; });
   for (size_t k = 0; k < names.size(); k++) {
      const String & fn = names[k];
      if (stripVolatile && IsVolatileFieldName(fn)) continue;
      uint32_t type = 0, count = 0; (void) m.GetInfo(fn, &type, &count);
      o += " " + Quote(fn()) + ":";
      if (type == B_MESSAGE_TYPE) {
         o += "msg=[";
         for (uint32_t i = 0; i < count; i++) { ConstMessageRef sub; if (i) o += ","; if (m.FindMessage(fn, i, sub).IsOK() && sub()) o += MsgText(*sub(), sortFields, stripVolatile); else o += "?"; }
      } else if (type == B_STRING_TYPE) {
         o += "str=[";
         for (uint32_t i = 0; i < count; i++) { const String * s = NULL; if (i) o += ","; if (m.FindString(fn, i, &s).IsOK() && s) o += Quote((*s)()); else o += "?"; }
      } else if (type == B_INT32_TYPE) {
         o += "i32=[";
         for (uint32_t i = 0; i < count; i++) { int32_t v = 0; if (i) o += ","; (void) m.FindInt32(fn, i, v); char b[16]; snprintf(b, sizeof(b), "%d", (int)v); o += b; }
      } else {
         o += U32(type) + "=[";
         for (uint32_t i = 0; i < count; i++) { const void * p = NULL; uint32_t nb = 0; if (i) o += ","; if (m.FindData(fn, B_ANY_TYPE, i, &p, &nb).IsOK() && p) o += Hex(p, nb); else o += "?"; }
      }
      o += "]";
   }
   return o + "}";
}
static inline std::string MsgText(const ConstMessageRef & m, bool sortFields = false, bool stripVolatile = true) { return m() ? MsgText(*m(), sortFields, stripVolatile) : std::string("(null)"); }
// Same text, memoised on the flattened bytes (a pure function of them); used by Dump(), where the same few payloads, filter
// archives and parameter sets are rendered over and over.
static inline const std::string & MsgTextCached(const Message & m, bool sortFields)
{
   static std::map<std::string, std::string> cache[2];
   std::map<std::string, std::string> & c = cache[sortFields ? 1 : 0];
   if (c.size() > 20000) c.clear();
   const std::string k = Flat(m);
   std::map<std::string, std::string>::iterator it = c.find(k);
   if (it == c.end()) it = c.insert(std::make_pair(k, MsgText(m, sortFields, true))).first;
   return it->second;
}

// Generated ordered-child names: "I<decimal>" (DataNode::InsertOrderedChild).  Their numbers depend on recycled DataNode
// state (finding F15), so canonical forms rename them by RANK among the generated-name siblings of one parent.
static inline bool IsGeneratedName(const char * s, unsigned long long * num = NULL)
{
   if (s[0] != 'I' || s[1] == 0) return false;
   unsigned long long v = 0; for (const char * p = s + 1; *p; p++) { if (*p < '0' || *p > '9') return false; v = v * 10 + (unsigned long long)(*p - '0'); }
   if (num) *num = v;
   return true;
}
// given the names of all children of ONE node, returns real name -> canonical name (only generated names are renamed: "I#<rank>")
static inline std::map<std::string, std::string> RankGeneratedNames(const std::vector<std::string> & siblings)
{
   std::vector<std::pair<unsigned long long, std::string> > g;
   for (size_t i = 0; i < siblings.size(); i++) { unsigned long long n; if (IsGeneratedName(siblings[i].c_str(), &n)) g.push_back(std::make_pair(n, siblings[i])); }
   std::sort(g.begin(), g.end());
   std::map<std::string, std::string> r;
   for (size_t i = 0; i < siblings.size(); i++) r[siblings[i]] = siblings[i];
   for (size_t i = 0; i < g.size(); i++) r[g[i].second] = "I#" + U32((uint32_t)i);
   return r;
}

// ------------------------------------------------------------------------------------------------ session subclass
// The only behavioural change is the host name.  Protected members of StorageReflectSession (FindMatchingNodes,
// FindMatchingSessions, CloneDataNodeSubtree, SaveNodeTreeToMessage, RestoreNodeTreeFromMessage, SetDataNode, ...) can be
// called directly on a Session* from harness code (-fno-access-control).
class Session : public StorageReflectSession
{
public:
   explicit Session(const std::string & host) : _l1Host(host) {}
   virtual String GenerateHostName(const muscle::IPAddress &, const String &) const { return String(_l1Host.c_str()); }
   virtual const char * GetTypeName() const { return "L1Session"; }
   std::string _l1Host;
};
typedef muscle::Ref<Session> SessionRef;

// ------------------------------------------------------------------------------------------------ command builders
static inline MessageRef NewMsg(uint32_t what) { return muscle::GetMessageFromPool(what); }

enum { PAYLOAD_WHAT = 1886483556 /* 'pyld' */ };
// standard test payload: {what='pyld', v:int32}
static inline MessageRef Payload(int32_t v) { MessageRef m = NewMsg(PAYLOAD_WHAT); (void) m()->AddInt32("v", v); return m; }
// a payload with a chosen what code and no fields
static inline MessageRef EmptyPayload(uint32_t what = 0) { return NewMsg(what); }

static inline muscle::SetDataNodeFlags Flags(int b0 = -1, int b1 = -1, int b2 = -1)
{
   muscle::SetDataNodeFlags f; if (b0 >= 0) f.SetBit((uint32_t)b0); if (b1 >= 0) f.SetBit((uint32_t)b1); if (b2 >= 0) f.SetBit((uint32_t)b2); return f;
}

// PR_COMMAND_SETDATA: one Message field per node path (relative to the sender's session directory); call AddData for more.
static inline MessageRef SetData(const std::string & path, const MessageRef & payload, const muscle::SetDataNodeFlags & flags = muscle::SetDataNodeFlags())
{
   MessageRef m = NewMsg(muscle::PR_COMMAND_SETDATA);
   if (flags.AreAnyBitsSet()) (void) m()->AddFlat(PR_NAME_FLAGS, flags);
   (void) m()->AddMessage(path.c_str(), payload);
   return m;
}
static inline void AddData(const MessageRef & setOrInsertMsg, const std::string & pathOrInsertBefore, const MessageRef & payload) { (void) setOrInsertMsg()->AddMessage(pathOrInsertBefore.c_str(), payload); }

// adds PR_NAME_KEYS strings (and, when given, the parallel PR_NAME_FILTERS archives; a NULL ref becomes an empty Message = "no filter")
static inline void AddKeys(const MessageRef & m, const std::vector<std::string> & keys, const std::vector<MessageRef> * filters = NULL)
{
   for (size_t i = 0; i < keys.size(); i++) (void) m()->AddString(PR_NAME_KEYS, keys[i].c_str());
   if (filters) for (size_t i = 0; i < filters->size(); i++) (void) m()->AddMessage(PR_NAME_FILTERS, (*filters)[i]() ? (*filters)[i] : NewMsg(0));
}
static inline std::vector<std::string> Keys(const std::string & a) { std::vector<std::string> v; v.push_back(a); return v; }
static inline std::vector<std::string> Keys(const std::string & a, const std::string & b) { std::vector<std::string> v; v.push_back(a); v.push_back(b); return v; }
static inline std::vector<std::string> Keys(const std::string & a, const std::string & b, const std::string & c) { std::vector<std::string> v; v.push_back(a); v.push_back(b); v.push_back(c); return v; }

// any command whose arguments are PR_NAME_KEYS (+ optional PR_NAME_FILTERS): GETDATA, REMOVEDATA, KICK, ADDBANS, REMOVEBANS,
// ADDREQUIRES, REMOVEREQUIRES, JETTISONRESULTS, REMOVEPARAMETERS, or a client-to-client Message with any other what code.
static inline MessageRef Keyed(uint32_t what, const std::vector<std::string> & keys, const std::vector<MessageRef> * filters = NULL)
{
   MessageRef m = NewMsg(what); AddKeys(m, keys, filters); return m;
}
static inline MessageRef RemoveData(const std::vector<std::string> & keys, bool quiet = false, const std::vector<MessageRef> * filters = NULL)
{
   MessageRef m = Keyed(muscle::PR_COMMAND_REMOVEDATA, keys, filters);
   if (quiet) (void) m()->AddBool(PR_NAME_REMOVE_QUIETLY, true);
   return m;
}
static inline MessageRef GetData(const std::vector<std::string> & keys, const std::vector<MessageRef> * filters = NULL) { return Keyed(muscle::PR_COMMAND_GETDATA, keys, filters); }
static inline MessageRef GetDataTrees(const std::vector<std::string> & keys, const char * requestId = NULL, int maxDepth = -1, const std::vector<MessageRef> * filters = NULL)
{
   MessageRef m = Keyed(muscle::PR_COMMAND_GETDATATREES, keys, filters);
   if (requestId) (void) m()->AddString(PR_NAME_TREE_REQUEST_ID, requestId);
   if (maxDepth >= 0) (void) m()->AddInt32(PR_NAME_MAXDEPTH, maxDepth);
   return m;
}
static inline MessageRef GetParameters() { return NewMsg(muscle::PR_COMMAND_GETPARAMETERS); }
static inline MessageRef Noop() { return NewMsg(muscle::PR_COMMAND_NOOP); }
static inline MessageRef Ping(int32_t tag = 0) { MessageRef m = NewMsg(muscle::PR_COMMAND_PING); (void) m()->AddInt32("tag", tag); return m; }
static inline MessageRef JettisonResults(const std::vector<std::string> * keys = NULL, const std::vector<MessageRef> * filters = NULL)
{
   MessageRef m = NewMsg(muscle::PR_COMMAND_JETTISONRESULTS); if (keys) AddKeys(m, *keys, filters); return m;
}
static inline MessageRef JettisonDataTrees(const char * requestIdPattern = NULL)
{
   MessageRef m = NewMsg(muscle::PR_COMMAND_JETTISONDATATREES); if (requestIdPattern) (void) m()->AddString(PR_NAME_TREE_REQUEST_ID, requestIdPattern); return m;
}
static inline MessageRef Batch(const std::vector<MessageRef> & subs)
{
   MessageRef m = NewMsg(muscle::PR_COMMAND_BATCH);
   for (size_t i = 0; i < subs.size(); i++) (void) m()->AddMessage(PR_NAME_KEYS, subs[i]);
   return m;
}
static inline MessageRef Batch(const MessageRef & a, const MessageRef & b) { std::vector<MessageRef> v; v.push_back(a); v.push_back(b); return Batch(v); }

// PR_COMMAND_INSERTORDEREDDATA: parentKeys = PR_NAME_KEYS (paths relative to the session dir, wildcards allowed); then
// AddData(msg, <name of the existing indexed child to insert before, or any other string for "append">, payload) per new child.
static inline MessageRef InsertOrderedData(const std::vector<std::string> & parentKeys, const std::vector<MessageRef> * filters = NULL) { return Keyed(muscle::PR_COMMAND_INSERTORDEREDDATA, parentKeys, filters); }
// PR_COMMAND_REORDERDATA: one string field per (node path pattern -> name of the sibling to move before | other = to end | PR_NAME_REMOVE_FROM_INDEX)
static inline MessageRef ReorderData(const std::string & nodePath, const std::string & moveBefore)
{
   MessageRef m = NewMsg(muscle::PR_COMMAND_REORDERDATA); (void) m()->AddString(nodePath.c_str(), moveBefore.c_str()); return m;
}
static inline void AddReorder(const MessageRef & m, const std::string & nodePath, const std::string & moveBefore) { (void) m()->AddString(nodePath.c_str(), moveBefore.c_str()); }

// PR_COMMAND_SETPARAMETERS: start with SetParameters(), then add entries.
static inline MessageRef SetParameters() { return NewMsg(muscle::PR_COMMAND_SETPARAMETERS); }
static inline std::string SubscribeName(const std::string & path) { return std::string(PR_NAME_SUBSCRIBE_PREFIX) + path; }
// SUBSCRIBE:<path>; filterArchive NULL => no filter (a bool value, as muscle's own clients send)
static inline void AddSubscribe(const MessageRef & m, const std::string & path, const MessageRef & filterArchive = MessageRef())
{
   if (filterArchive()) (void) m()->AddMessage(SubscribeName(path).c_str(), filterArchive); else (void) m()->AddBool(SubscribeName(path).c_str(), true);
}
static inline void AddSubscribeQuietly(const MessageRef & m) { (void) m()->AddBool(PR_NAME_SUBSCRIBE_QUIETLY, true); }
static inline void AddMaxUpdateItems(const MessageRef & m, int32_t n) { (void) m()->AddInt32(PR_NAME_MAX_UPDATE_MESSAGE_ITEMS, n); }
static inline void AddFlagParam(const MessageRef & m, const char * name) { (void) m()->AddBool(name, true); }  // PR_NAME_REFLECT_TO_SELF, PR_NAME_DISABLE_SUBSCRIPTIONS, PR_NAME_ROUTE_*
static inline void AddDefaultRoute(const MessageRef & m, const std::vector<std::string> & keys, const std::vector<MessageRef> * filters = NULL) { AddKeys(m, keys, filters); }
static inline MessageRef Subscribe(const std::string & path, const MessageRef & filterArchive = MessageRef(), bool quietly = false)
{
   MessageRef m = SetParameters(); AddSubscribe(m, path, filterArchive); if (quietly) AddSubscribeQuietly(m); return m;
}
// PR_COMMAND_REMOVEPARAMETERS takes wildcard PATTERNS over parameter names; to name exactly one parameter whose name contains
// pattern characters (every SUBSCRIBE:/*/... does) a client must escape them.
static inline std::string EscapeParamName(const std::string & name)
{
   std::string o;
   for (size_t i = 0; i < name.size(); i++) { if (strchr("[]*?\\,|()=^+${}", name[i])) o += '\\'; o += name[i]; }
   return o;
}
static inline MessageRef RemoveParameters(const std::vector<std::string> & patterns) { return Keyed(muscle::PR_COMMAND_REMOVEPARAMETERS, patterns); }
static inline MessageRef Unsubscribe(const std::string & path) { return RemoveParameters(Keys(EscapeParamName(SubscribeName(path)))); }
static inline MessageRef UnsubscribeAll() { return RemoveParameters(Keys(std::string(PR_NAME_SUBSCRIBE_PREFIX) + "*")); }

// QueryFilter archives
static inline MessageRef FilterArchive(const muscle::QueryFilter & f) { MessageRef m = NewMsg(0); (void) f.SaveToArchive(*m()); return m; }
static inline MessageRef Int32Filter(const char * field, uint8_t op /* Int32QueryFilter::OP_* */, int32_t value) { muscle::Int32QueryFilter f(field, op, value); return FilterArchive(f); }
static inline MessageRef WhatCodeFilter(uint32_t lo, uint32_t hi) { muscle::WhatCodeQueryFilter f(lo, hi); return FilterArchive(f); }

// ------------------------------------------------------------------------------------------------ result parsing
struct DataItems {
   std::vector<std::string> removed;                            // PR_NAME_REMOVED_DATAITEMS, in order
   std::vector<std::pair<std::string, ConstMessageRef> > sets;  // (full node path, payload) in field order, values of one field in order
};
// returns false when msg is not a PR_RESULT_DATAITEMS
static inline bool ParseDataItems(const MessageRef & msg, DataItems & out)
{
   out.removed.clear(); out.sets.clear();
   if (msg() == NULL || msg()->what != muscle::PR_RESULT_DATAITEMS) return false;
   const String * s;
   for (int32_t i = 0; msg()->FindString(PR_NAME_REMOVED_DATAITEMS, i, &s).IsOK(); i++) out.removed.push_back((*s)());
   for (muscle::MessageFieldNameIterator it = msg()->GetFieldNameIterator(B_MESSAGE_TYPE); it.HasData(); it++) {
      ConstMessageRef sub;
      for (int32_t i = 0; msg()->FindMessage(it.GetFieldName(), i, sub).IsOK(); i++) out.sets.push_back(std::make_pair(std::string(it.GetFieldName()()), sub));
   }
   return true;
}
// Applies one PR_RESULT_DATAITEMS to a client-side mirror (path -> flattened payload bytes): removals first, then sets, in order.
static inline bool ApplyDataItems(std::map<std::string, std::string> & mirror, const MessageRef & msg)
{
   DataItems d; if (!ParseDataItems(msg, d)) return false;
   for (size_t i = 0; i < d.removed.size(); i++) mirror.erase(d.removed[i]);
   for (size_t i = 0; i < d.sets.size(); i++) mirror[d.sets[i].first] = Flat(d.sets[i].second);
   return true;
}
struct IndexOp { std::string nodePath; char op; uint32_t index; std::string key; };  // op: 'i' inserted, 'r' removed, 'c' cleared
static inline bool ParseIndexUpdated(const MessageRef & msg, std::vector<IndexOp> & out)
{
   out.clear();
   if (msg() == NULL || msg()->what != muscle::PR_RESULT_INDEXUPDATED) return false;
   for (muscle::MessageFieldNameIterator it = msg()->GetFieldNameIterator(B_STRING_TYPE); it.HasData(); it++) {
      const String * s;
      for (int32_t i = 0; msg()->FindString(it.GetFieldName(), i, &s).IsOK(); i++) {
         IndexOp o; o.nodePath = it.GetFieldName()(); const char * p = (*s)(); o.op = p[0]; o.index = 0; o.key = "";
         if (p[0]) { const char * c = strchr(p, ':'); o.index = (uint32_t)strtoul(p + 1, NULL, 10); if (c) o.key = c + 1; }
         out.push_back(o);
      }
   }
   return true;
}

// ------------------------------------------------------------------------------------------------ the world
struct DumpOpts {
   bool layoutOrder;     // false (default): children / subscriptions / parameters sorted by name; true: the server's own iteration order
   bool queues;          // include the undrained outgoing queues (C07: queue state of a non-reading client)
   bool canonGenerated;  // rename generated ordered-child names by rank (default true)
   bool tree, sessions;  // which sections to emit
   uint32_t roleMask;    // sessions section + tree subtrees restricted to these roles (bit r); default all.  Sessions that are
                         // not in the harness's role table (none in normal use) are always shown.
   DumpOpts() : layoutOrder(false), queues(false), canonGenerated(true), tree(true), sessions(true), roleMask(0xFFFFFFFFu) {}
};

class L1World
{
public:
   typedef Session * (*MakeSessionFn)(int role, const std::string & host);

   muscle::ReflectServer server;
   MakeSessionFn makeSession;   // optional: harness-specific Session subclass

   L1World() : makeSession(NULL) { EnsureSetup(); server.SetDoLogging(false); for (int i = 0; i < MAX_ROLES; i++) { _id[i] = 0; } }
   ~L1World()
   {
      for (int r = 0; r < MAX_ROLES; r++) if (_s[r]()) (void) Drain(r);   // so that the detach-time DoOutput() finds nothing to push into the DataIO-less gateway
      server.Cleanup();
      for (int r = 0; r < MAX_ROLES; r++) _s[r].Reset();
   }

   // Creates a session for `role` with session id `sessionID` (decimal string = its node name) on host `host` and attaches it.
   // Returns true on success.  Ids/hosts are the caller's convention, e.g. A=(hA,1) B=(hA,2) C=(hC,3).
   bool Attach(int role, const std::string & host, uint32_t sessionID)
   {
      if (role < 0 || role >= MAX_ROLES || _s[role]()) return false;
      muscle::_sessionIDCounter = sessionID;   // file-static of AbstractReflectSession.cpp, visible because that .cpp is part of this TU
      Session * s = makeSession ? makeSession(role, host) : new Session(host);
      SessionRef ref(s);
      s->SetGateway(muscle::AbstractMessageIOGatewayRef(new muscle::MessageIOGateway));
      if (server.AddNewSession(ref, muscle::ConstSocketRef()).IsError()) return false;
      _s[role] = ref; _host[role] = host; _id[role] = sessionID;
      return true;
   }
   bool IsAttached(int role) const { return role >= 0 && role < MAX_ROLES && _s[role]() != NULL; }
   Session * S(int role) const { return _s[role](); }
   const std::string & Host(int role) const { return _host[role]; }
   uint32_t Id(int role) const { return _id[role]; }
   std::string Root(int role) const { return "/" + _host[role] + "/" + U32(_id[role]); }   // the session's directory, e.g. "/hA/1"
   int RoleOfSessionId(uint32_t id) const { for (int r = 0; r < MAX_ROLES; r++) if (_s[r]() && _id[r] == id) return r; return -1; }

   // Delivers one Message to the session exactly as its gateway's DoInput() would: DoInputBegins, CallMessageReceivedFromGateway
   // (= MessageReceivedFromGateway + AfterMessageReceivedFromGateway, i.e. the subscription flush), DoInputEnds.
   // The Message may be modified by the server (PING, SETPARAMETERS with keys): build a fresh one per injection.
   void Inject(int role, const MessageRef & msg)
   {
      Session * s = _s[role](); if (s == NULL) return;
      s->DoInputBegins(); s->CallMessageReceivedFromGateway(msg, NULL); s->DoInputEnds();
   }
   // several Messages arriving in ONE read (one Begin/End batch around all of them)
   void InjectMany(int role, const std::vector<MessageRef> & msgs)
   {
      Session * s = _s[role](); if (s == NULL) return;
      s->DoInputBegins(); for (size_t i = 0; i < msgs.size(); i++) s->CallMessageReceivedFromGateway(msgs[i], NULL); s->DoInputEnds();
   }

   // Everything the server has sent this client since the last Drain, in order; empties the queue.
   std::vector<MessageRef> Drain(int role)
   {
      std::vector<MessageRef> out; Session * s = _s[role](); if (s == NULL || s->GetGateway()() == NULL) return out;
      muscle::Queue<MessageRef> & q = s->GetGateway()()->GetOutgoingMessageQueue();
      for (uint32_t i = 0; i < q.GetNumItems(); i++) out.push_back(q[i]);
      q.Clear();
      return out;
   }
   size_t Pending(int role) const { Session * s = _s[role](); return (s && s->GetGateway()()) ? s->GetGateway()()->GetOutgoingMessageQueue().GetNumItems() : 0; }

   // One non-blocking pass of the real event loop (clears lame ducks, runs due pulses; there is no I/O to do).  Sessions that the
   // server detached in that pass (EndSession / PR_COMMAND_KICK from another session) are released; returns their roles as a bit mask.
   // Call it after any command that can end a session, before the next Dump()/Inject().
   uint32_t Step()
   {
      (void) server.ServerProcessLoop(0);
      uint32_t gone = 0;
      for (int r = 0; r < MAX_ROLES; r++) if (_s[r]() && !_s[r]()->IsAttachedToServer()) { gone |= (1u << r); _s[r].Reset(); }
      return gone;
   }

   // Session departure: EndSession() + one event-loop pass.  Returns what was still queued for the departing client.
   std::vector<MessageRef> Depart(int role)
   {
      std::vector<MessageRef> last = Drain(role);
      Session * s = _s[role](); if (s == NULL) return last;
      s->EndSession();
      (void) Step();
      _s[role].Reset();
      return last;
   }

   // grants PR_PRIVILEGE_* `priv` (or all when priv == PR_NUM_PRIVILEGES) to sessions whose host matches `hostPattern`; call before Attach
   void GrantPrivilege(int priv, const std::string & hostPattern) { char t[32]; snprintf(t, sizeof(t), "priv%i", priv); (void) server.GetCentralState().AddString(t, hostPattern.c_str()); }

   // ---- in-process reads
   DataNode * RootNode() const
   {
      for (int r = 0; r < MAX_ROLES; r++) if (_s[r]() && _s[r]()->_sharedData) return _s[r]()->_sharedData->_root();
      return NULL;
   }
   // every node at depth >= minDepth: full path -> flattened payload bytes (the in-process walk; 3 = NODE_DEPTH_USER)
   std::map<std::string, std::string> WalkTree(uint32_t minDepth = 3) const
   {
      std::map<std::string, std::string> out; DataNode * root = RootNode(); if (root) WalkAux(*root, "", minDepth, out); return out;
   }
   // names in the ordered index of the node at `fullPath` (real names); false if there is no such node
   bool IndexOf(const std::string & fullPath, std::vector<std::string> & names) const
   {
      names.clear(); DataNode * root = RootNode(); if (root == NULL) return false;
      DataNode * n = root->FindFirstMatchingNode(EscapePathLiteral(fullPath).c_str()); if (n == NULL) return false;
      const muscle::Queue<muscle::DataNodeRef> * idx = n->GetIndex();
      if (idx) for (uint32_t i = 0; i < idx->GetNumItems(); i++) names.push_back((*idx)[i]()->GetNodeName()());
      return true;
   }

   // "" when the server is quiescent: no pending subscription Messages, no dirty flag, no batch in progress
   std::string CheckQuiescent() const
   {
      for (int r = 0; r < MAX_ROLES; r++) {
         const Session * s = _s[r](); if (s == NULL) continue;
         if (s->_nextSubscriptionMessage()) return "session " + U32(_id[r]) + " holds an unflushed PR_RESULT_DATAITEMS";
         if (s->_nextIndexSubscriptionMessage()) return "session " + U32(_id[r]) + " holds an unflushed PR_RESULT_INDEXUPDATED";
         if (s->_batchMsgNestCount.IsInBatch()) return "session " + U32(_id[r]) + " is inside a batch";
         if (s->_sharedData && s->_sharedData->_subsDirty) return "shared subscription-dirty flag is set";
      }
      return "";
   }

   // structural invariants of the node tree that hold for every reachable state; "" when all hold
   std::string CheckTreeInvariants() const
   {
      DataNode * root = RootNode(); if (root == NULL) return "";
      std::set<uint32_t> ids; for (muscle::ConstHashtableIterator<const String *, muscle::AbstractReflectSessionRef> it(server.GetSessions()); it.HasData(); it++) ids.insert(it.GetValue()()->GetSessionID());
      std::string err; InvAux(*root, NULL, 0, ids, err); return err;
   }

   // The canonical dump.  Deterministic across processes.  Excluded on purpose: DataNode::_orderedCounter and _maxChildIDHint
   // (history of the recycled object, F15), cached checksums, the subscriber-table LRU cache, every time stamp, memory figures,
   // ReflectServer::_serverSessionID / _serverStartedAt, pointer values.
   std::string Dump(const DumpOpts & o = DumpOpts()) const
   {
      std::string out;
      std::set<std::string> sessionDirs;   // "/host/id" of the roles selected by the mask
      for (int r = 0; r < MAX_ROLES; r++) if (_s[r]() && (o.roleMask & (1u << r))) sessionDirs.insert(Root(r));
      if (o.tree) {
         out += "TREE\n";
         DataNode * root = RootNode();
         if (root) DumpNode(*root, "", o, sessionDirs, out);
      }
      if (o.sessions) {
         out += "SESSIONS\n";
         for (muscle::ConstHashtableIterator<const String *, muscle::AbstractReflectSessionRef> it(server.GetSessions()); it.HasData(); it++) {
            const StorageReflectSession * s = dynamic_cast<const StorageReflectSession *>(it.GetValue()()); if (s == NULL) continue;
            const int role = RoleOfSessionId(s->GetSessionID());
            if (role >= 0 && !(o.roleMask & (1u << role))) continue;
            DumpSession(*s, role, o, out);
         }
      }
      return out;
   }

   // canonical form of a node path with generated names replaced by rank (uses the CURRENT tree; clauses that no longer exist are kept)
   std::string CanonPath(const std::string & fullPath) const
   {
      DataNode * n = RootNode(); if (n == NULL || fullPath.empty() || fullPath[0] != '/') return fullPath;
      std::string out; size_t pos = 1;
      while (pos <= fullPath.size()) {
         size_t e = fullPath.find('/', pos); if (e == std::string::npos) e = fullPath.size();
         std::string clause = fullPath.substr(pos, e - pos);
         std::string canon = clause;
         if (n) {
            if (IsGeneratedName(clause.c_str())) { std::map<std::string, std::string> m = RankGeneratedNames(ChildNames(*n)); if (m.count(clause)) canon = m[clause]; }
            muscle::DataNodeRef c; n = (n->GetChild(String(clause.c_str()), c).IsOK()) ? c() : NULL;
         }
         out += "/" + canon; pos = e + 1;
      }
      return out;
   }

private:
   SessionRef _s[MAX_ROLES]; std::string _host[MAX_ROLES]; uint32_t _id[MAX_ROLES];

   // FindFirstMatchingNode() interprets wildcards; escape them so that a literal path is looked up literally
   static std::string EscapePathLiteral(const std::string & p)
   {
      std::string o; for (size_t i = 0; i < p.size(); i++) { if (strchr("[]*?\\,|()=^+${}<~", p[i])) o += '\\'; o += p[i]; } return o;
   }
   static std::vector<std::string> ChildNames(const DataNode & n)
   {
      std::vector<std::string> v; for (muscle::DataNodeRefIterator it = n.GetChildIterator(); it.HasData(); it++) v.push_back((*it.GetKey())()); return v;
   }
   static void WalkAux(const DataNode & n, const std::string & path, uint32_t minDepth, std::map<std::string, std::string> & out)
   {
      if (n.GetDepth() >= minDepth) out[path] = Flat(n.GetData());
      for (muscle::DataNodeRefIterator it = n.GetChildIterator(); it.HasData(); it++) WalkAux(*it.GetValue()(), path + "/" + (*it.GetKey())(), minDepth, out);
   }
   static void InvAux(const DataNode & n, const DataNode * parent, uint32_t depth, const std::set<uint32_t> & ids, std::string & err)
   {
      if (!err.empty()) return;
      std::string np = n.GetNodePath()();
      if (n.GetParent() != parent) { err = "node " + np + ": parent pointer does not point to the node that lists it as a child"; return; }
      if (n.GetDepth() != depth) { err = "node " + np + ": depth field " + U32(n.GetDepth()) + " != actual depth " + U32(depth); return; }
      for (muscle::ConstHashtableIterator<uint32_t, uint32_t> it(n.GetSubscribers()); it.HasData(); it++) {
         if (it.GetValue() == 0) { err = "node " + np + ": subscriber entry with count 0 for session " + U32(it.GetKey()); return; }
         if (!ids.count(it.GetKey())) { err = "node " + np + ": subscriber entry for session " + U32(it.GetKey()) + " which is not attached"; return; }
      }
      const muscle::Queue<muscle::DataNodeRef> * idx = n.GetIndex();
      if (idx) {
         std::set<std::string> seen;
         for (uint32_t i = 0; i < idx->GetNumItems(); i++) {
            const DataNode * c = (*idx)[i](); std::string cn = c ? c->GetNodeName()() : "(null)";
            muscle::DataNodeRef real;
            if (c == NULL || n.GetChild(c->GetNodeName(), real).IsError() || real() != c) { err = "node " + np + ": index entry " + cn + " is not a current child"; return; }
            if (!seen.insert(cn).second) { err = "node " + np + ": index lists " + cn + " twice"; return; }
         }
      }
      for (muscle::DataNodeRefIterator it = n.GetChildIterator(); it.HasData(); it++) {
         if (*it.GetKey() != it.GetValue()()->GetNodeName()) { err = "node " + np + ": child key differs from the child's node name"; return; }
         InvAux(*it.GetValue()(), &n, depth + 1, ids, err);
      }
   }
   void DumpNode(const DataNode & n, const std::string & canonPath, const DumpOpts & o, const std::set<std::string> & sessionDirs, std::string & out) const
   {
      const uint32_t depth = n.GetDepth();
      if (depth >= 1) {
         out += " " + Quote(canonPath) + " d=" + (n.GetData()() ? MsgTextCached(*n.GetData()(), false) : std::string("(null)")) + " s={";
         std::vector<std::pair<uint32_t, uint32_t> > subs;
         for (muscle::ConstHashtableIterator<uint32_t, uint32_t> it(n.GetSubscribers()); it.HasData(); it++) subs.push_back(std::make_pair((uint32_t)it.GetKey(), (uint32_t)it.GetValue()));
         if (!o.layoutOrder) std::sort(subs.begin(), subs.end());
         for (size_t i = 0; i < subs.size(); i++) out += (i ? "," : "") + U32(subs[i].first) + ":" + U32(subs[i].second);
         out += "}";
      }
      std::vector<std::string> names = ChildNames(n);
      std::map<std::string, std::string> canon; if (o.canonGenerated) canon = RankGeneratedNames(names); else for (size_t i = 0; i < names.size(); i++) canon[names[i]] = names[i];
      if (depth >= 1) {
         const muscle::Queue<muscle::DataNodeRef> * idx = n.GetIndex();
         if (idx) { out += " idx=["; for (uint32_t i = 0; i < idx->GetNumItems(); i++) { std::string cn = (*idx)[i]()->GetNodeName()(); out += (i ? "," : "") + Quote(canon.count(cn) ? canon[cn] : cn); } out += "]"; }
         out += "\n";
      }
      std::vector<std::pair<std::string, std::string> > kids;  // (canonical name, real name)
      for (size_t i = 0; i < names.size(); i++) kids.push_back(std::make_pair(canon[names[i]], names[i]));
      if (!o.layoutOrder) std::sort(kids.begin(), kids.end());
      for (size_t i = 0; i < kids.size(); i++) {
         muscle::DataNodeRef c; if (n.GetChild(String(kids[i].second.c_str()), c).IsError() || c() == NULL) continue;
         const std::string childPath = canonPath + "/" + kids[i].first;
         if (depth == 1 && o.roleMask != 0xFFFFFFFFu) {   // child is a session directory: apply the role mask (unknown sessions are always shown)
            const std::string realPath = std::string(n.GetNodePath()()) + "/" + kids[i].second;
            bool known = false; for (int r = 0; r < MAX_ROLES; r++) if (_s[r]() && Root(r) == realPath) known = true;
            if (known && !sessionDirs.count(realPath)) continue;
         }
         DumpNode(*c(), childPath, o, sessionDirs, out);
      }
   }
   void DumpSession(const StorageReflectSession & s, int role, const DumpOpts & o, std::string & out) const
   {
      out += " session id=" + U32(s.GetSessionID()) + " role=" + (role >= 0 ? std::string(1, (char)('A' + role)) : std::string("?")) + " host=" + Quote(s.GetHostName()()) + " root=" + Quote(s.GetSessionRootPath()())
           + " routing=" + std::string(s._defaultRoutingFlags.ToHexString()()) + " subsEnabled=" + (s._subscriptionsEnabled ? "1" : "0") + " maxItems=" + U32(s._maxSubscriptionMessageItems)
           + " indexing=" + (s._indexingPresent ? "1" : "0") + " nodeCount=" + U32(s._currentNodeCount) + " maxNodes=" + U32(s._maxNodeCount) + " maxKids=" + U32(s._maxChildrenPerDataNodeCount)
           + " keepAlive=" + U32(s._keepAliveIntervalSeconds) + " lameDuck=" + (server._lameDuckSessions.ContainsKey(&s.GetSessionIDString()) ? "1" : "0") + "\n";
      DumpMatcher("sub", s._subscriptions, o, out);
      DumpMatcher("route", s._defaultMessageRoute, o, out);
      out += "  params " + MsgTextCached(s._parameters, !o.layoutOrder) + "\n";
      if (o.queues) {
         const muscle::AbstractMessageIOGateway * gw = s.GetGateway()();
         if (gw) { const muscle::Queue<MessageRef> & q = gw->GetOutgoingMessageQueue(); for (uint32_t i = 0; i < q.GetNumItems(); i++) out += "  queued " + MsgText(q[i], false) + "\n"; }
      }
   }
   static void DumpMatcher(const char * tag, const muscle::PathMatcher & pm, const DumpOpts & o, std::string & out)
   {
      std::vector<std::string> lines;
      for (muscle::ConstHashtableIterator<uint32_t, muscle::Hashtable<String, muscle::PathMatcherEntry> > it(pm.GetEntries()); it.HasData(); it++)
         for (muscle::ConstHashtableIterator<String, muscle::PathMatcherEntry> sub(it.GetValue()); sub.HasData(); sub++) {
            std::string l = std::string("  ") + tag + " depth=" + U32(it.GetKey()) + " " + Quote(sub.GetKey()()) + " filter=";
            const muscle::QueryFilter * f = sub.GetValue().GetFilter()();
            if (f) { Message a; (void) f->SaveToArchive(a); l += MsgTextCached(a, true); } else l += "-";
            lines.push_back(l);
         }
      if (!o.layoutOrder) std::sort(lines.begin(), lines.end());
      for (size_t i = 0; i < lines.size(); i++) out += lines[i] + "\n";
      if (pm.GetNumFilters() > 0) out += std::string("  ") + tag + "-numFilters=" + U32(pm.GetNumFilters()) + "\n";
   }
};

}  // namespace l1

#endif
