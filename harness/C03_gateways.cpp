// C03 -- A gateway delivers exactly the sent Message sequence for every byte segmentation.
//
// Part families (all run the REAL gateways over a scripted in-memory stream DataIO, harness/C03_pipe.h):
//   ff-*     fault-free unsegmented exchange per gateway type/encoding/sequence (must pass before anything else counts; also yields
//            the reference streams).  A gateway whose fault-free exchange fails is reported as its own violation class.
//   seqx-*   ALL segmentations via state hashing (SEQX): one endpoint (sender alone, receiver alone, or a duplex / WebSocket endpoint
//            with both directions) explored as a graph; ops = one DoOutput/DoInput call with a harness-chosen transfer pattern
//            (window of k bytes for every k, would-block, first-call-short, one/two/three/seven bytes per call, maxBytes 1/7/all)
//            plus a "drain" op that finishes the exchange fault-free from every reached state.
//   hf-*     hash-free exhaustive enumerations (MUTX): text and SLIP over complete small alphabets x ALL segmentations; end-to-end
//            sender->receiver runs of the binary/templating/WebSocket gateways under every schedule with <=2 (quick) / <=3 (thorough)
//            cut points per side, every uniform chunk size, and a would-block inserted at every offset.
// VBUILD: libs=c
#include "engines/seqx/seqx.h"
#include "engines/mutx/mutx.h"
#include "harness/C03_kinds.h"

using namespace muscle;
using namespace c03;

// ================================================================================================ specs
enum { D_OUT = 0, D_IN = 1 };

struct Spec {
   std::string name; Kind kind;
   Outgoing out;                              // what this endpoint sends
   std::string refOut;                        // the stream it must emit (reference: unsegmented run / reference encoder)
   std::string inStream;                      // what it reads
   std::vector<std::string> inFlats;          // G_MESSAGES: flattened Messages carried by inStream, in order
   std::vector<std::string> inItems;          // WebSocket without slave: the payloads carried by inStream, in order
   std::vector<uint32> inBoundaries;          // offset in inStream at which unit i (Message / frame) is complete
   bool sparse[2]; std::vector<uint32> targets[2];   // sparse mode (long streams): only these window targets are explored
   uint32 hsEnd[2];                           // WebSocket endpoints: where the HTTP handshake text ends in refOut / inStream (0 = not applicable)
   Spec() { sparse[0] = sparse[1] = false; hsEnd[0] = hsEnd[1] = 0; }
   bool AtRest(int dir, uint32 n) const { return n == 0 || n == hsEnd[dir] || n == B(dir); }
   uint32 B(int dir) const { return (uint32)((dir == D_OUT) ? refOut.size() : inStream.size()); }
};

static std::string HexHead(const std::string & s, size_t n = 48) { return verif::Hex(s.substr(0, n)) + (s.size() > n ? "..." : ""); }

// what must have been delivered once the first n bytes of inStream were consumed; returns "" if the collector agrees
static std::string CheckDelivered(const Spec & sp, const Collector & col, const AbstractMessageIOGateway * gw, uint32 n)
{
   const Kind & k = sp.kind;
   switch (k.Gran()) {
   case G_MESSAGES: {
      size_t cnt = 0; while (cnt < sp.inBoundaries.size() && sp.inBoundaries[cnt] <= n) cnt++;
      if (col.flats.size() != cnt) return verif::Fmt("%u Messages delivered after %u bytes of input, expected %u", (unsigned)col.flats.size(), n, (unsigned)cnt);
      for (size_t i = 0; i < cnt; i++) if (col.flats[i] != sp.inFlats[i]) return verif::Fmt("delivered Message #%u differs from the one sent (%u vs %u flattened bytes): got ", (unsigned)i, (unsigned)col.flats[i].size(), (unsigned)sp.inFlats[i].size()) + HexHead(col.flats[i]) + " sent " + HexHead(sp.inFlats[i]);
      return ""; }
   case G_LINES: {
      const TextSplit t = RefTextSplit(sp.inStream.substr(0, n));
      if (col.lines != t.lines) { std::string a, b; for (size_t i = 0; i < col.lines.size(); i++) a += "[" + verif::Hex(col.lines[i]) + "]"; for (size_t i = 0; i < t.lines.size(); i++) b += "[" + verif::Hex(t.lines[i]) + "]"; return "delivered lines (hex) " + a + " but the stream so far " + verif::Hex(sp.inStream.substr(0, n)) + " holds the lines " + b; }
      if (gw && k.id == K_TXT) { const PlainTextMessageIOGateway * g = static_cast<const PlainTextMessageIOGateway *>(gw); const std::string held(g->_incomingText.Cstr(), g->_incomingText.Length()); if (held != t.tail) return "partial line held by the gateway is [" + verif::Hex(held) + "], the unterminated rest of the stream is [" + verif::Hex(t.tail) + "]"; }
      return ""; }
   case G_BYTES: {
      const std::string got = Concat(col.chunks); const uint32 exp = k.minChunk ? (n / k.minChunk) * k.minChunk : n;
      if (got != sp.inStream.substr(0, exp)) return verif::Fmt("delivered %u bytes after %u bytes of input, expected the first %u bytes of the stream; got ", (unsigned)got.size(), n, exp) + HexHead(got);
      if (k.minChunk) for (size_t i = 0; i < col.chunks.size(); i++) if (col.chunks[i].size() != k.minChunk) return verif::Fmt("chunk #%u has %u bytes, minimum-chunk mode promises exactly %u", (unsigned)i, (unsigned)col.chunks[i].size(), k.minChunk);
      for (size_t i = 0; i < col.chunks.size(); i++) if (col.chunks[i].size() > k.maxChunk) return verif::Fmt("chunk #%u has %u bytes, above the configured maximum %u", (unsigned)i, (unsigned)col.chunks[i].size(), k.maxChunk);
      return ""; }
   case G_FRAMES: {
      std::vector<std::string> exp;
      if (k.id == K_SLIP) exp = RefSlipDecode(sp.inStream.substr(0, n)).frames;
      else { size_t cnt = 0; while (cnt < sp.inBoundaries.size() && sp.inBoundaries[cnt] <= n) cnt++; exp.assign(sp.inItems.begin(), sp.inItems.begin() + cnt); }
      if (col.chunks != exp) { std::string a, b; for (size_t i = 0; i < col.chunks.size(); i++) a += "[" + HexHead(col.chunks[i], 16) + "]"; for (size_t i = 0; i < exp.size(); i++) b += "[" + HexHead(exp[i], 16) + "]"; return verif::Fmt("delivered %u frames ", (unsigned)col.chunks.size()) + a + verif::Fmt(" after %u bytes of input, the reference decoder yields %u frames ", n, (unsigned)exp.size()) + b; }
      return ""; }
   }
   return "";
}

static std::string KindKey(const Kind & k)
{
   switch (k.id) { case K_BIN: return "binary"; case K_TPL: return "templating"; case K_TXT: return "text"; case K_RAW: return "raw"; case K_SLIP: return "slip"; case K_WS_CLIENT: return "websocket-client"; case K_WS_SERVER: return "websocket-server"; case K_MINI_C: return "c-mini"; case K_MICRO_C: return "c-micro"; }
   return "?";
}

// ================================================================================================ SEQX endpoint model
enum { P_TARGET, P_SPARSE, P_REL, P_FIRST, P_FIRST_THEN_ALL, P_UNIFORM, P_DRAIN };
struct Op { int dir; uint32 M; int policy; uint32 arg; };   // M == 0: no maxBytes limit

struct EWorld {
   const Spec * spec; int specIdx; bool built;
   AbstractMessageIOGatewayRef gw; ScriptIO io; Collector col; std::string outcome;
   uint64_t hist; std::vector<int> deferred;   // see EndpointModel::Apply (replay short-cut)
   EWorld() : spec(NULL), specIdx(-1), built(false), hist(0) {}
   ~EWorld() { if (gw()) gw()->SetDataIO(DataIORef()); }
};

static void ArmDir(Dir & d, int first, int policy, long budget) { d.script.clear(); d.spos = 0; if (first >= 0) d.script.push_back(first); d.policy = policy; d.budget = budget; }
static void BlockDir(Dir & d) { ArmDir(d, -1, POLICY_BLOCK, 0); }

class EndpointModel {
public:
   std::vector<Spec> specs; std::vector<Op> ops; std::vector<std::string> names;
   typedef EWorld World;
   int NumStarts() const { return (int)specs.size(); }
   int NumOps() const { return (int)ops.size(); }
   std::string OpName(int i) const { return names[(size_t)i]; }
   std::string StartName(int s) const { return specs[(size_t)s].name; }

   void Add(int dir, uint32 M, int policy, uint32 arg)
   {
      Op o; o.dir = dir; o.M = M; o.policy = policy; o.arg = arg; ops.push_back(o);
      std::string n = (policy == P_DRAIN) ? "drain(both directions unrestricted until quiet)" : (dir == D_OUT) ? "DoOutput(" : "DoInput(";
      if (policy != P_DRAIN) {
         n += M ? verif::Fmt("max=%u", M) : std::string("max=all");
         const char * io = (dir == D_OUT) ? "Write" : "Read";
         switch (policy) {
         case P_TARGET: n += verif::Fmt("; %s moves the stream up to offset %u, then would-block)", io, arg); break;
         case P_SPARSE: n += verif::Fmt("; %s moves the stream up to selected offset #%u, then would-block)", io, arg); break;
         case P_REL: n += arg ? verif::Fmt("; %s moves %u bytes, then would-block)", io, arg) : verif::Fmt("; %s would-block)", io); break;
         case P_FIRST: n += verif::Fmt("; first %s returns <=%u, later calls would-block)", io, arg); break;
         case P_FIRST_THEN_ALL: n += verif::Fmt("; first %s returns <=%u, later calls unrestricted)", io, arg); break;
         case P_UNIFORM: n += verif::Fmt("; every %s returns <=%u)", io, arg); break;
         }
      }
      names.push_back(n);
   }
   void BuildAlphabet()
   {
      for (int dir = 0; dir < 2; dir++) {
         uint32 maxFull = 0, maxSparse = 0; bool any = false;
         for (size_t i = 0; i < specs.size(); i++) { const Spec & s = specs[i]; if (s.B(dir) == 0) continue; any = true; if (s.sparse[dir]) maxSparse = std::max(maxSparse, (uint32)s.targets[dir].size()); else maxFull = std::max(maxFull, s.B(dir)); }
         if (!any) continue;
         Add(dir, 0, P_REL, 0);                                                    // would-block
         for (uint32 t = 1; t <= maxFull; t++) Add(dir, 0, P_TARGET, t);             // window up to every offset
         for (uint32 j = 0; j < maxSparse; j++) Add(dir, 0, P_SPARSE, j);
         static const uint32 rel[] = {1, 2, 3, 4, 7, 8, 9}; for (size_t i = 0; i < sizeof(rel) / sizeof(rel[0]); i++) Add(dir, 0, P_REL, rel[i]);   // (needed in sparse mode; harmless duplicates otherwise)
         static const uint32 fst[] = {1, 2, 3, 7}; for (size_t i = 0; i < 4; i++) Add(dir, 0, P_FIRST, fst[i]);
         Add(dir, 0, P_FIRST_THEN_ALL, 1); Add(dir, 0, P_FIRST_THEN_ALL, 3);
         static const uint32 uni[] = {1, 2, 3, 7}; for (size_t i = 0; i < 4; i++) Add(dir, 0, P_UNIFORM, uni[i]);
         Add(dir, 1, P_UNIFORM, 1); Add(dir, 1, P_REL, 0);                           // maxBytes = 1
         Add(dir, 7, P_UNIFORM, 7); Add(dir, 7, P_UNIFORM, 1); Add(dir, 7, P_REL, 3); Add(dir, 7, P_FIRST, 2);   // maxBytes = 7
      }
      Add(0, 0, P_DRAIN, 0);
   }

   // Replay short-cut (pure optimisation, same verdicts): within one process a history that was already executed with status OK is not
   // executed again when it recurs as the PREFIX of another history; its ops are deferred, and executed for real only if the new last op
   // turns out to be enabled (its enabledness depends only on the stream offsets reached by the prefix, which the memo holds).
   struct Memo { uint32 nOut, nIn; };
   mutable std::unordered_map<uint64_t, Memo> memo;
   static uint64_t MixH(uint64_t h, uint64_t v) { return verif::Mix64(h * 0x9E3779B97F4A7C15ULL + v + 0x7F4A7C15ULL); }
   void Init(World & w, int s) const { w.spec = &specs[(size_t)s]; w.specIdx = s; w.hist = MixH(0x1234, (uint64_t)s); Memo m0 = {0, 0}; memo[w.hist] = m0; }   // the gateway is built lazily (statically disabled ops cost nothing)
   void Build(World & w) const
   {
      const Spec & sp = *w.spec;
      SetConsoleLogLevel(MUSCLE_LOG_NONE); verif_rand_counter = 0;
      w.gw = sp.kind.Make(); w.io.in = sp.inStream; BlockDir(w.io.rd); BlockDir(w.io.wr);
      w.gw()->SetDataIO(DummyDataIORef(w.io));
      QueueAll(sp.kind, sp.out, *w.gw());
      w.built = true;
   }
   bool StaticEnabled(const Spec & sp, const Op & o) const
   {
      if (o.policy == P_DRAIN) return true;
      if (sp.B(o.dir) == 0) return false;
      if (o.policy == P_TARGET) return !sp.sparse[o.dir] && o.arg <= sp.B(o.dir);
      if (o.policy == P_SPARSE) return sp.sparse[o.dir] && o.arg < sp.targets[o.dir].size();
      return true;
   }
   std::string Phase(const World & w) const
   {
      if (!w.spec->kind.IsWs()) return "";
      return static_cast<const WebSocketMessageIOGateway *>(w.gw())->IsHandshakeInProgress() ? ":handshake" : ":frames";
   }
   // invariants that must hold after every call
   bool CheckAll(World & w, const std::string & ctx, std::string & msg, std::string & key) const
   {
      const Spec & sp = *w.spec; const std::string kk = KindKey(sp.kind);
      const std::string & out = w.io.out;
      if (out.size() > sp.refOut.size() || sp.refOut.compare(0, out.size(), out) != 0) {
         size_t d = 0; while (d < out.size() && d < sp.refOut.size() && out[d] == sp.refOut[d]) d++;
         msg = verif::Fmt("emitted stream (%u bytes) is not a prefix of the reference stream of the unsegmented run (%u bytes): first difference at offset %u; emitted ", (unsigned)out.size(), (unsigned)sp.refOut.size(), (unsigned)d) + HexHead(out.substr(d), 24) + " reference " + HexHead(sp.refOut.substr(std::min(d, sp.refOut.size())), 24);
         key = kk + ":emitted-stream-differs" + ctx; return false;
      }
      const std::string e = sp.kind.ErrorOf(*w.gw());
      if (!e.empty()) { msg = e + verif::Fmt(" (after %u bytes emitted, %u bytes consumed)", (unsigned)out.size(), (unsigned)w.io.inPos); key = kk + ":gateway-error" + ctx; return false; }
      if (!sp.inStream.empty()) { const std::string d = CheckDelivered(sp, w.col, w.gw(), (uint32)w.io.inPos); if (!d.empty()) { msg = d; key = kk + ":delivered-differs" + ctx; return false; } }
      else if (!w.col.flats.empty()) { msg = "a Message was delivered although no input exists"; key = kk + ":delivered-from-nothing" + ctx; return false; }
      if (!sp.kind.IsWs() && out.size() < sp.refOut.size() && !w.gw()->HasBytesToOutput()) { msg = verif::Fmt("HasBytesToOutput() is false although only %u of %u bytes were emitted", (unsigned)out.size(), (unsigned)sp.refOut.size()); key = kk + ":sender-stalls" + ctx; return false; }
      return true;
   }
   // enabledness that depends on the offsets reached so far; also resolves the transfer pattern of the call
   bool DynEnabled(const Spec & sp, const Op & o, uint32 nOut, uint32 nIn, long & budget, int & first, int & pol) const
   {
      if (o.policy == P_DRAIN) return true;
      const uint32 n = (o.dir == D_OUT) ? nOut : nIn, B = sp.B(o.dir), rem = B - n;
      budget = -1; first = -1; pol = POLICY_ALL;
      // long streams are explored sparsely: irregular moves start only at a selected offset (else every offset would be reached step by step)
      const bool onTarget = !sp.sparse[o.dir] || n == 0 || std::binary_search(sp.targets[o.dir].begin(), sp.targets[o.dir].end(), n);
      const bool irregular = !(o.policy == P_TARGET || o.policy == P_SPARSE || (o.policy == P_REL && o.arg == 0 && o.M == 0));
      if (irregular && !onTarget) return false;
      // WebSocket endpoints: the two directions are explored as a full product while either is inside its handshake text (that is where
      // input enables output); once a direction is in its frame phase it moves only while the other direction rests at 0 / handshake end / end
      if (sp.hsEnd[o.dir] && n >= sp.hsEnd[o.dir]) { const int od = 1 - o.dir; if (!sp.AtRest(od, od == D_OUT ? nOut : nIn)) return false; }
      switch (o.policy) {
      case P_TARGET: if (o.arg <= n) return false; budget = (long)(o.arg - n); break;
      case P_SPARSE: { const uint32 t = sp.targets[o.dir][o.arg]; if (t <= n || t > B) return false; budget = (long)(t - n); break; }
      case P_REL: if (o.arg > 0 && (rem == 0 || o.arg > rem)) return false; budget = (long)o.arg; break;
      case P_FIRST: if (rem == 0) return false; first = (int)o.arg; pol = POLICY_BLOCK; break;
      case P_FIRST_THEN_ALL: if (rem <= o.arg) return false; first = (int)o.arg; break;
      case P_UNIFORM: if (rem == 0 && !(o.arg == 1 && o.M == 0)) return false; pol = (int)o.arg; break;
      }
      return true;
   }
   bool Flush(World & w, std::string & msg, std::string & key) const
   {
      std::vector<int> d; d.swap(w.deferred);
      for (size_t i = 0; i < d.size(); i++) if (ApplyReal(w, d[i], msg, key) != seqx::SEQX_OK) { msg = "harness: deferred prefix op not OK on execution: " + msg; key = "harness:deferred-replay"; return false; }
      return true;
   }
   int Apply(World & w, int opi, std::string & msg, std::string & key) const
   {
      const Op & o = ops[(size_t)opi]; const Spec & sp = *w.spec;
      if (!StaticEnabled(sp, o)) return seqx::SEQX_DISABLED;
      const uint64_t hNew = MixH(w.hist, (uint64_t)opi + 1);
      if (memo.count(hNew)) { w.deferred.push_back(opi); w.hist = hNew; return seqx::SEQX_OK; }
      std::unordered_map<uint64_t, Memo>::const_iterator pm = memo.find(w.hist);
      if (pm != memo.end()) { long b; int f, p; if (!DynEnabled(sp, o, pm->second.nOut, pm->second.nIn, b, f, p)) return seqx::SEQX_DISABLED; }
      if (!Flush(w, msg, key)) return -1;
      const int st = ApplyReal(w, opi, msg, key);
      if (st == seqx::SEQX_OK) { w.hist = hNew; Memo m = { (uint32)w.io.out.size(), (uint32)w.io.inPos }; memo[hNew] = m; }
      return st;
   }
   int ApplyReal(World & w, int opi, std::string & msg, std::string & key) const
   {
      const Op & o = ops[(size_t)opi]; const Spec & sp = *w.spec;
      if (!w.built) Build(w);
      AbstractMessageIOGateway & g = *w.gw(); const std::string kk = KindKey(sp.kind);
      const uint32 out0 = (uint32)w.io.out.size(), in0 = (uint32)w.io.inPos;
      if (o.policy == P_DRAIN) {
         const std::string ph = Phase(w);
         ArmDir(w.io.rd, -1, POLICY_ALL, -1); ArmDir(w.io.wr, -1, POLICY_ALL, -1);
         for (int round = 0; round < 64; round++) {
            const size_t o1 = w.io.out.size(), i1 = w.io.inPos;
            if (!sp.inStream.empty()) for (int i = 0; i < 8; i++) { const size_t ib = w.io.inPos; const io_status_t r = g.DoInput(w.col); if (r.IsError() && w.io.inPos < w.io.in.size()) { msg = verif::Fmt("drain: DoInput returned error [%s] with %u input bytes left", r.GetStatus()(), (unsigned)(w.io.in.size() - w.io.inPos)); key = kk + ":input-error:drain" + ph; BlockDir(w.io.rd); BlockDir(w.io.wr); return seqx::SEQX_VIOLATION; } if (w.io.inPos == ib) break; }
            for (int i = 0; i < 64 && g.HasBytesToOutput(); i++) { const size_t ob = w.io.out.size(); const io_status_t r = g.DoOutput(); if (r.IsError()) { msg = verif::Fmt("drain: DoOutput returned error [%s]", r.GetStatus()()); key = kk + ":output-error:drain" + ph; BlockDir(w.io.rd); BlockDir(w.io.wr); return seqx::SEQX_VIOLATION; } if (w.io.out.size() == ob && i >= 2) break; }
            if (w.io.out.size() == o1 && w.io.inPos == i1) break;
         }
         BlockDir(w.io.rd); BlockDir(w.io.wr);
         if (!CheckAll(w, ":drain" + ph, msg, key)) { msg = "drain: " + msg; return seqx::SEQX_VIOLATION; }
         if (w.io.out.size() != sp.refOut.size() || w.io.inPos != sp.inStream.size() || g.HasBytesToOutput()) {
            msg = verif::Fmt("after an unrestricted drain from this state: %u of %u bytes emitted, %u of %u input bytes consumed, HasBytesToOutput()=%d (everything must be transferred and nothing left to output)", (unsigned)w.io.out.size(), (unsigned)sp.refOut.size(), (unsigned)w.io.inPos, (unsigned)sp.inStream.size(), (int)g.HasBytesToOutput());
            key = kk + ":incomplete-after-drain" + ph; return seqx::SEQX_VIOLATION;
         }
         w.outcome = verif::Fmt("drain %u/%u d=%u", (unsigned)(w.io.out.size() - out0), (unsigned)(w.io.inPos - in0), (unsigned)w.col.flats.size());
         return seqx::SEQX_OK;
      }
      const uint32 n = (o.dir == D_OUT) ? out0 : in0, B = sp.B(o.dir);
      Dir & d = (o.dir == D_OUT) ? w.io.wr : w.io.rd;
      long budget = -1; int first = -1, pol = POLICY_ALL;
      if (!DynEnabled(sp, o, out0, in0, budget, first, pol)) return seqx::SEQX_DISABLED;
      const std::string ph = Phase(w);
      const std::string ctx = std::string(o.dir == D_OUT ? ":DoOutput" : ":DoInput") + ph;
      ArmDir(d, first, pol, budget);
      const uint32 maxBytes = o.M ? o.M : MUSCLE_NO_LIMIT;
      const io_status_t r = (o.dir == D_OUT) ? g.DoOutput(maxBytes) : g.DoInput(w.col, maxBytes);
      BlockDir(d);
      const uint32 moved = (o.dir == D_OUT) ? (uint32)w.io.out.size() - out0 : (uint32)w.io.inPos - in0;
      const uint32 other = (o.dir == D_OUT) ? (uint32)w.io.inPos - in0 : (uint32)w.io.out.size() - out0;
      if (r.IsError()) { msg = OpName(opi) + verif::Fmt(": returned error [%s] at stream offset %u of %u (%u bytes moved by this call)", r.GetStatus()(), n, B, moved); key = kk + ":io-error-returned" + ctx; return seqx::SEQX_VIOLATION; }
      if (other) { msg = OpName(opi) + ": the call moved bytes in the opposite direction"; key = kk + ":wrong-direction" + ctx; return seqx::SEQX_VIOLATION; }
      if (!sp.kind.IsWs()) {
         if ((uint32)r.GetByteCount() != moved) { msg = OpName(opi) + verif::Fmt(": returned %d but %u bytes were actually moved", r.GetByteCount(), moved); key = kk + ":return-count-wrong" + ctx; return seqx::SEQX_VIOLATION; }
         if (moved > maxBytes) { msg = OpName(opi) + verif::Fmt(": moved %u bytes, above maxBytes", moved); key = kk + ":maxBytes-exceeded" + ctx; return seqx::SEQX_VIOLATION; }
      }
      if (!CheckAll(w, ctx, msg, key)) { msg = OpName(opi) + ": " + msg; return seqx::SEQX_VIOLATION; }
      w.outcome = verif::Fmt("%c%u d=%u", o.dir == D_OUT ? 'o' : 'i', moved, (unsigned)w.col.flats.size());
      return seqx::SEQX_OK;
   }
   // Canonical form: which spec, bytes emitted / consumed so far, everything the gateway's I/O routines read besides the stream
   // (see C03_kinds.h Canon*), number and digest of the delivered Messages.  zlib stream states are functions of the number of Messages
   // deflated/inflated so far (the gateways only ever (de)compress whole Message bodies), which the key contains (queue length, delivered count).
   void Canon(const World & cw, std::string & out) const
   {
      World & w = const_cast<World &>(cw);
      if (!w.deferred.empty()) { std::string m, k; if (!Flush(w, m, k)) { out = "deferred-replay-failed:" + m; return; } }
      out = verif::Fmt("spec%d", w.specIdx);
      if (!w.built) { out += "|unbuilt"; return; }
      out += verif::Fmt("|o%u i%u", (unsigned)w.io.out.size(), (unsigned)w.io.inPos);
      w.spec->kind.Canon(*w.gw(), out);
      // delivered so far, at the granularity the gateway type defines (how lines / chunks were grouped into Messages depends on the
      // segmentation by design and does not influence the gateway's future)
      std::string dl; size_t cnt = 0;
      switch (w.spec->kind.Gran()) { case G_MESSAGES: dl = JoinLen(w.col.flats); cnt = w.col.flats.size(); break; case G_LINES: dl = JoinLen(w.col.lines); cnt = w.col.lines.size(); break; case G_BYTES: dl = Concat(w.col.chunks); cnt = dl.size(); break; case G_FRAMES: dl = JoinLen(w.col.chunks); cnt = w.col.chunks.size(); break; }
      const verif::Hash128 h = verif::HashStr(dl); out += verif::Fmt("|d%u:", (unsigned)cnt) + verif::Hex(&h, sizeof(h));
   }
   void Outcome(const World & w, std::string & out) const { out = w.outcome; }
};

// ================================================================================================ scenarios and their preparation
// A scenario = (gateway kind, outgoing sequence); preparation (in a forked child) runs the fault-free unsegmented exchange, which yields
// the reference stream, the unit boundaries, and the fault-free verdict.
struct Scenario {
   std::string name; Kind kind; Outgoing out; bool hasRx; Kind rx;   // rx: the receiving gateway's kind when it differs from the sender's (C <-> C++ pairs)
   Scenario() : hasRx(false) {}
   const Kind & RxKind() const { return hasRx ? rx : kind; }
   std::string extraRx;          // receiver-only scenarios (text/SLIP/raw): a hand-made input stream instead of a sender
   // results
   std::string ref; std::vector<uint32> boundaries; std::vector<std::string> sentFlats; std::string failKey, failMsg;
   bool Ok() const { return failKey.empty(); }
};

static void PutStr(std::string & o, const std::string & s) { uint32_t n = (uint32_t)s.size(); o.append((const char *)&n, 4); o += s; }
static bool GetStr(const std::string & d, size_t & off, std::string & s) { if (off + 4 > d.size()) return false; uint32_t n; memcpy(&n, d.data() + off, 4); off += 4; if (off + n > d.size()) return false; s.assign(d.data() + off, n); off += n; return true; }
static void PutVec(std::string & o, const std::vector<uint32> & v) { uint32_t n = (uint32_t)v.size(); o.append((const char *)&n, 4); if (n) o.append((const char *)&v[0], 4 * n); }
static bool GetVec(const std::string & d, size_t & off, std::vector<uint32> & v) { if (off + 4 > d.size()) return false; uint32_t n; memcpy(&n, d.data() + off, 4); off += 4; if (off + 4 * (size_t)n > d.size()) return false; v.resize(n); if (n) memcpy(&v[0], d.data() + off, 4 * (size_t)n); off += 4 * (size_t)n; return true; }
static void PutStrs(std::string & o, const std::vector<std::string> & v) { uint32_t n = (uint32_t)v.size(); o.append((const char *)&n, 4); for (size_t i = 0; i < v.size(); i++) PutStr(o, v[i]); }
static bool GetStrs(const std::string & d, size_t & off, std::vector<std::string> & v) { if (off + 4 > d.size()) return false; uint32_t n; memcpy(&n, d.data() + off, 4); off += 4; v.clear(); for (uint32_t i = 0; i < n; i++) { std::string s; if (!GetStr(d, off, s)) return false; v.push_back(s); } return true; }

// unsegmented sender run; returns the stream and the offsets at which the gateway started each Write
static std::string TplKeys(const Hashtable<uint64, MessageRef> & t, uint32 bytes) { std::string o = verif::Fmt("%u bytes:", bytes); for (ConstHashtableIterator<uint64, MessageRef> it(t); it.HasData(); it++) o += verif::Fmt("%llx,", (unsigned long long)it.GetKey()); return o; }
static bool RunSenderUnsegmented(const Kind & k, const Outgoing & og, std::string & stream, std::vector<uint32> & writeOffsets, std::vector<std::string> * sentFlats, std::string & err, std::string * tplKeys = NULL)
{
   verif_rand_counter = 0;
   AbstractMessageIOGatewayRef gw = k.Make(); ScriptIO io; io.logCalls = true; gw()->SetDataIO(DummyDataIORef(io));
   QueueAll(k, og, *gw(), sentFlats);
   int idle = 0;
   for (int guard = 0; guard < 100000 && gw()->HasBytesToOutput(); guard++) { const size_t b = io.out.size(); const io_status_t r = gw()->DoOutput(); if (r.IsError()) { err = verif::Fmt("DoOutput returned error [%s]", r.GetStatus()()); break; } if (io.out.size() == b) { if (++idle > 3) break; } else idle = 0; }
   if (err.empty() && gw()->HasBytesToOutput()) err = "HasBytesToOutput() stays true although the transport accepts everything";
   if (err.empty()) { const std::string e = k.ErrorOf(*gw()); if (!e.empty()) err = e; }
   stream = io.out; writeOffsets = io.wr.callOffsets;
   if (tplKeys && k.id == K_TPL) { const TemplatingMessageIOGateway * t = static_cast<const TemplatingMessageIOGateway *>(gw()); *tplKeys = TplKeys(t->_outgoingTemplates, t->_outgoingTemplatesTotalSizeBytes); }
   gw()->SetDataIO(DataIORef());
   return err.empty();
}
static void RunReceiverUnsegmented(const Kind & k, const std::string & stream, Collector & col, AbstractMessageIOGatewayRef & gw, ScriptIO & io, std::string & err)
{
   verif_rand_counter = 0;
   gw = k.Make(); io.in = stream; gw()->SetDataIO(DummyDataIORef(io));
   for (int guard = 0; guard < 100000; guard++) { const size_t b = io.inPos; const io_status_t r = gw()->DoInput(col); if (r.IsError() && io.inPos < io.in.size()) { err = verif::Fmt("DoInput returned error [%s] with %u bytes unread", r.GetStatus()(), (unsigned)(io.in.size() - io.inPos)); break; } if (io.inPos == b) break; }
   if (err.empty()) { const std::string e = k.ErrorOf(*gw()); if (!e.empty()) err = e; }
   if (err.empty() && io.inPos != io.in.size()) err = verif::Fmt("receiver stops after %u of %u bytes although everything is available", (unsigned)io.inPos, (unsigned)io.in.size());
}

static void PrepareScenarioInChild(Scenario & sc)
{
   SetConsoleLogLevel(MUSCLE_LOG_NONE);
   std::string kk = KindKey(sc.kind);
   std::string err, senderCache; std::vector<uint32> wo;
   if (sc.extraRx.empty()) {
      if (!RunSenderUnsegmented(sc.kind, sc.out, sc.ref, wo, &sc.sentFlats, err, &senderCache)) { sc.failKey = kk + ":fault-free:sender-fails"; sc.failMsg = err; return; }
      std::string enc;
      if (RefEncode(sc.kind, sc.out, enc) && enc != sc.ref) { sc.failKey = kk + ":fault-free:wire-format-differs-from-reference-encoder"; sc.failMsg = "emitted " + HexHead(sc.ref, 64) + " reference encoder " + HexHead(enc, 64); return; }
      if (sc.kind.id == K_MINI_C || sc.kind.id == K_MICRO_C) {
         // MessageIOGateway wire framing: [uint32 LE body length][uint32 encoding][body] (the micro gateway hands several Messages to one Write)
         size_t off = 0; while (off + 8 <= sc.ref.size()) { uint32_t len; memcpy(&len, sc.ref.data() + off, 4); off += 8 + (size_t)len; sc.boundaries.push_back((uint32)off); }
         if (off != sc.ref.size() || sc.boundaries.size() != sc.sentFlats.size()) { sc.failKey = kk + ":fault-free:stream-not-framed-as-MessageIOGateway"; sc.failMsg = verif::Fmt("the %u emitted bytes do not parse as %u [length][encoding][body] units", (unsigned)sc.ref.size(), (unsigned)sc.sentFlats.size()); return; }
      } else if (sc.kind.Gran() == G_MESSAGES) {
         // each Message is handed to the transport with exactly one Write in the unsegmented run: Message i is complete where Write i+1 starts
         if (wo.size() != sc.sentFlats.size()) { sc.failKey = "harness:boundary-model"; sc.failMsg = verif::Fmt("harness: %u Write calls for %u Messages", (unsigned)wo.size(), (unsigned)sc.sentFlats.size()); return; }
         for (size_t i = 1; i < wo.size(); i++) sc.boundaries.push_back(wo[i]); if (!wo.empty()) sc.boundaries.push_back((uint32)sc.ref.size());
      }
   } else sc.ref = sc.extraRx;
   // receiver, everything available at once
   Spec sp; sp.kind = sc.RxKind(); sp.inStream = sc.ref; sp.inFlats = sc.sentFlats; sp.inBoundaries = sc.boundaries;
   Collector col; AbstractMessageIOGatewayRef gw; ScriptIO io;
   RunReceiverUnsegmented(sc.RxKind(), sc.ref, col, gw, io, err);
   if (sc.hasRx) kk = KindKey(sc.kind) + "-to-" + KindKey(sc.rx);
   if (!err.empty()) { sc.failKey = kk + ":fault-free:receiver-fails"; sc.failMsg = err; }
   else { const std::string d = CheckDelivered(sp, col, gw(), (uint32)sc.ref.size()); if (!d.empty()) { sc.failKey = kk + ":fault-free:not-delivered-as-sent"; sc.failMsg = d; } }
   if (sc.failKey.empty() && sc.kind.id == K_TPL) {   // the two ends must keep their caches in step
      const TemplatingMessageIOGateway * t = static_cast<const TemplatingMessageIOGateway *>(gw()); const std::string rc = TplKeys(t->_incomingTemplates, t->_incomingTemplatesTotalSizeBytes);
      if (rc != senderCache) { sc.failKey = kk + ":fault-free:template-caches-out-of-step"; sc.failMsg = "after the complete exchange the sender's outgoing template cache is [" + senderCache + "], the receiver's incoming cache is [" + rc + "]"; }
   }
   if (gw()) gw()->SetDataIO(DataIORef());
}
static void SerializeScenario(const Scenario & sc, std::string & rec) { PutStr(rec, sc.ref); PutVec(rec, sc.boundaries); PutStrs(rec, sc.sentFlats); PutStr(rec, sc.failKey); PutStr(rec, sc.failMsg); }
static bool DeserializeScenario(Scenario & sc, const std::string & rec) { size_t off = 0; return GetStr(rec, off, sc.ref) && GetVec(rec, off, sc.boundaries) && GetStrs(rec, off, sc.sentFlats) && GetStr(rec, off, sc.failKey) && GetStr(rec, off, sc.failMsg); }

// ---- WebSocket pair
struct WsScenario {
   std::string name; bool slave; int32 enc; Outgoing cOut, sOut; bool ping;
   // results
   std::string cRef, sRef;               // reference output streams of client / server (handshake text + frames)
   std::string cRfc;                     // the client's stream as RFC 6455 prescribes it (harness encoder, same keys, same payloads)
   std::vector<std::string> cFlats, sFlats, cItems, sItems; std::vector<uint32> cBounds, sBounds;   // units and where they end in cRfc / sRef
   std::string failKey, failMsg; bool c2sOk, s2cOk, cRfcOk;
   WsScenario() : slave(true), enc(MUSCLE_MESSAGE_ENCODING_DEFAULT), ping(false), c2sOk(false), s2cOk(false), cRfcOk(true) {}
   Kind K(bool client) const { Kind k; k.id = client ? K_WS_CLIENT : K_WS_SERVER; k.wsSlave = slave; k.encTable.push_back(enc); k.name = client ? "websocket-client" : "websocket-server"; return k; }
};
// parses RFC 6455 frames starting at `off`; appends the end offset of every frame
static bool WsFrameEnds(const std::string & s, size_t off, std::vector<uint32> & ends, std::vector<std::string> * keys = NULL, std::vector<std::string> * payloadsOnWire = NULL)
{
   while (off < s.size()) {
      if (off + 2 > s.size()) return false;
      const unsigned char b1 = (unsigned char)s[off + 1]; uint64_t len = b1 & 0x7F; size_t h = 2;
      if (len == 126) { if (off + 4 > s.size()) return false; len = (((unsigned char)s[off + 2]) << 8) | (unsigned char)s[off + 3]; h = 4; }
      else if (len == 127) { if (off + 10 > s.size()) return false; len = 0; for (int i = 0; i < 8; i++) len = (len << 8) | (unsigned char)s[off + 2 + i]; h = 10; }
      if (b1 & 0x80) { if (off + h + 4 > s.size()) return false; if (keys) keys->push_back(s.substr(off + h, 4)); h += 4; } else if (keys) keys->push_back("");
      if (off + h + len > s.size()) return false;
      if (payloadsOnWire) payloadsOnWire->push_back(s.substr(off + h, (size_t)len));
      off += h + (size_t)len; ends.push_back((uint32)off);
   }
   return true;
}
struct WsPair {
   AbstractMessageIOGatewayRef c, s; ScriptIO cio, sio; Collector ccol, scol; size_t cMoved, sMoved;
   WsPair() : cMoved(0), sMoved(0) {}
   ~WsPair() { if (c()) c()->SetDataIO(DataIORef()); if (s()) s()->SetDataIO(DataIORef()); }
   void Build(const WsScenario & w, bool queueClient, bool queueServer, std::vector<std::string> * cf = NULL, std::vector<std::string> * sf = NULL)
   {
      verif_rand_counter = 0;
      c = w.K(true).Make(); s = w.K(false).Make(); c()->SetDataIO(DummyDataIORef(cio)); s()->SetDataIO(DummyDataIORef(sio));
      if (queueClient) QueueAll(w.K(true), w.cOut, *c(), cf); if (queueServer) QueueAll(w.K(false), w.sOut, *s(), sf);
   }
   // one fault-free round: client out -> server in -> server out -> client in; returns whether anything moved
   bool Round(std::string & err)
   {
      const size_t a = cio.out.size() + sio.out.size() + cio.inPos + sio.inPos;
      for (int i = 0; i < 64 && c()->HasBytesToOutput(); i++) { const size_t b = cio.out.size(); const io_status_t r = c()->DoOutput(); if (r.IsError()) { err = verif::Fmt("client DoOutput error [%s]", r.GetStatus()()); return false; } if (cio.out.size() == b && i >= 2) break; }
      sio.in.append(cio.out, cMoved, std::string::npos); cMoved = cio.out.size();
      for (int i = 0; i < 64; i++) { const size_t b = sio.inPos; const io_status_t r = s()->DoInput(scol); if (r.IsError() && sio.inPos < sio.in.size()) { err = verif::Fmt("server DoInput error [%s]", r.GetStatus()()); return false; } if (sio.inPos == b) break; }
      for (int i = 0; i < 64 && s()->HasBytesToOutput(); i++) { const size_t b = sio.out.size(); const io_status_t r = s()->DoOutput(); if (r.IsError()) { err = verif::Fmt("server DoOutput error [%s]", r.GetStatus()()); return false; } if (sio.out.size() == b && i >= 2) break; }
      cio.in.append(sio.out, sMoved, std::string::npos); sMoved = sio.out.size();
      for (int i = 0; i < 64; i++) { const size_t b = cio.inPos; const io_status_t r = c()->DoInput(ccol); if (r.IsError() && cio.inPos < cio.in.size()) { err = verif::Fmt("client DoInput error [%s]", r.GetStatus()()); return false; } if (cio.inPos == b) break; }
      return (cio.out.size() + sio.out.size() + cio.inPos + sio.inPos) != a;
   }
};
static std::vector<std::string> ItemsOf(const Outgoing & og) { std::vector<std::string> v; for (size_t i = 0; i < og.items.size(); i++) for (size_t j = 0; j < og.items[i].size(); j++) v.push_back(og.items[i][j]); return v; }

static void PrepareWsInChild(WsScenario & w)
{
   SetConsoleLogLevel(MUSCLE_LOG_NONE);
   std::string err;
   // (1) reference streams: each direction alone (the other side queues nothing), fault-free
   { WsPair p; p.Build(w, true, false, &w.cFlats, NULL); for (int i = 0; i < 32 && p.Round(err); i++) {} w.cRef = p.cio.out; if (!err.empty()) { w.failKey = "websocket:fault-free:error"; w.failMsg = err; return; }
     w.c2sOk = w.slave ? (p.scol.flats == w.cFlats) : (p.scol.chunks == ItemsOf(w.cOut));
     if (!w.c2sOk) { const std::string se = w.K(false).ErrorOf(*p.s()); w.failMsg = verif::Fmt("fault-free unsegmented exchange: handshake %s, client queued %u units, server delivered %u", (static_cast<WebSocketMessageIOGateway *>(p.s())->IsHandshakeInProgress() || static_cast<WebSocketMessageIOGateway *>(p.c())->IsHandshakeInProgress()) ? "NOT completed" : "completed", (unsigned)(w.slave ? w.cFlats.size() : ItemsOf(w.cOut).size()), (unsigned)(w.slave ? p.scol.flats.size() : p.scol.chunks.size())) + (se.empty() ? "" : "; server: " + se); } }
   { WsPair p; p.Build(w, false, true, NULL, &w.sFlats); for (int i = 0; i < 32 && p.Round(err); i++) {} w.sRef = p.sio.out; if (!err.empty()) { w.failKey = "websocket:fault-free:error"; w.failMsg = err; return; }
     w.s2cOk = w.slave ? (p.ccol.flats == w.sFlats) : (p.ccol.chunks == ItemsOf(w.sOut)); }
   w.cItems = ItemsOf(w.cOut); w.sItems = ItemsOf(w.sOut);
   // (2) the client's stream as RFC 6455 prescribes it: same HTTP request, same key octets, payload = what the slave gateway emits for the Message
   const size_t cHdr = w.cRef.find("\r\n\r\n"), sHdr = w.sRef.find("\r\n\r\n");
   if (cHdr == std::string::npos || sHdr == std::string::npos) { w.failKey = "websocket:fault-free:no-handshake-text"; w.failMsg = "no HTTP handshake text in the emitted streams"; return; }
   std::vector<uint32> ends; std::vector<std::string> keys, wire;
   if (!WsFrameEnds(w.cRef, cHdr + 4, ends, &keys, &wire)) { w.failKey = "websocket:fault-free:client-stream-not-parsable"; w.failMsg = "the client's output after the handshake is not a sequence of RFC 6455 frames"; return; }
   std::vector<std::string> plain;
   if (w.slave) {   // what a MessageIOGateway with the slave's encoding emits for the whole sequence (zlib state carries over), split at its Write boundaries
      Kind bk; bk.id = K_BIN; bk.encTable.push_back(w.enc); std::string st, e2; std::vector<uint32> wo; RunSenderUnsegmented(bk, w.cOut, st, wo, NULL, e2);
      for (size_t i = 0; i < wo.size(); i++) plain.push_back(st.substr(wo[i], ((i + 1 < wo.size()) ? wo[i + 1] : (uint32)st.size()) - wo[i]));
   } else plain = w.cItems;
   if (ends.size() != plain.size()) { w.failKey = "websocket:fault-free:frame-count"; w.failMsg = verif::Fmt("client emitted %u frames for %u payloads", (unsigned)ends.size(), (unsigned)plain.size()); return; }
   w.cRfc = w.cRef.substr(0, cHdr + 4);
   bool reversedKeyExplains = !plain.empty(), conforming = true;
   for (size_t i = 0; i < plain.size(); i++) {
      unsigned char key[4] = {0, 0, 0, 0}; if (keys[i].size() == 4) memcpy(key, keys[i].data(), 4);
      w.cRfc += RefWsFrame(w.slave ? 2 : 2, plain[i], true, key); w.cBounds.push_back((uint32)w.cRfc.size());
      std::string asSent = wire[i], rev = wire[i];
      for (size_t j = 0; j < asSent.size(); j++) { asSent[j] = (char)(((unsigned char)asSent[j]) ^ key[j & 3]); rev[j] = (char)(((unsigned char)rev[j]) ^ key[3 - (j & 3)]); }
      if (asSent != plain[i]) conforming = false; if (rev != plain[i]) reversedKeyExplains = false;
   }
   if (!w.c2sOk) {
      w.failKey = "websocket:client-to-server:not-delivered";
      if (!conforming) w.failMsg += std::string("; root cause check: un-masking the client's payload with the key octets AS TRANSMITTED (RFC 6455 5.3) does NOT give the payload, ") + (reversedKeyExplains ? "un-masking with the key octets in REVERSE order does: CreateReplyFrame writes the mask as a big-endian uint32 but XORs with its bytes in native (little-endian) order" : "and neither does the reversed key");
   } else if (!conforming) { w.failKey = "websocket:client-frames-not-rfc6455"; w.failMsg = "client frames are not masked with the transmitted key octets although the server decoded them"; }
   {  // the server must decode the RFC-conforming client stream (fault-free, everything available at once)
      Kind sk = w.K(false); Collector col; AbstractMessageIOGatewayRef gw; ScriptIO io; std::string e3; RunReceiverUnsegmented(sk, w.cRfc, col, gw, io, e3);
      const bool ok = e3.empty() && (w.slave ? (col.flats == w.cFlats) : (col.chunks == w.cItems));
      if (gw()) gw()->SetDataIO(DataIORef());
      if (!ok && w.failKey.empty()) { w.failKey = "websocket:fault-free:server-rejects-rfc6455-client-stream"; w.failMsg = "server fed with an RFC 6455 conforming client stream: " + (e3.empty() ? verif::Fmt("delivered %u units of %u", (unsigned)(w.slave ? col.flats.size() : col.chunks.size()), (unsigned)(w.slave ? w.cFlats.size() : w.cItems.size())) : e3); }
      if (!ok) { w.cRfcOk = false; }
   }
   // server -> client units
   std::vector<uint32> sEnds; if (!WsFrameEnds(w.sRef, sHdr + 4, sEnds)) { w.failKey = "websocket:fault-free:server-stream-not-parsable"; w.failMsg = "the server's output after the handshake is not a sequence of RFC 6455 frames"; return; }
   w.sBounds = sEnds;
   if (!w.s2cOk && w.failKey.empty()) { w.failKey = "websocket:server-to-client:not-delivered"; w.failMsg = "fault-free unsegmented exchange: the client did not deliver what the server sent"; }
}
static void SerializeWs(const WsScenario & w, std::string & r) { PutStr(r, w.cRef); PutStr(r, w.sRef); PutStr(r, w.cRfc); PutStrs(r, w.cFlats); PutStrs(r, w.sFlats); PutStrs(r, w.cItems); PutStrs(r, w.sItems); PutVec(r, w.cBounds); PutVec(r, w.sBounds); PutStr(r, w.failKey); PutStr(r, w.failMsg); r += (char)(w.c2sOk ? 1 : 0); r += (char)(w.s2cOk ? 1 : 0); r += (char)(w.cRfcOk ? 1 : 0); }
static bool DeserializeWs(WsScenario & w, const std::string & r) { size_t o = 0; if (!(GetStr(r, o, w.cRef) && GetStr(r, o, w.sRef) && GetStr(r, o, w.cRfc) && GetStrs(r, o, w.cFlats) && GetStrs(r, o, w.sFlats) && GetStrs(r, o, w.cItems) && GetStrs(r, o, w.sItems) && GetVec(r, o, w.cBounds) && GetVec(r, o, w.sBounds) && GetStr(r, o, w.failKey) && GetStr(r, o, w.failMsg)) || o + 3 > r.size()) return false; w.c2sOk = r[o] != 0; w.s2cOk = r[o + 1] != 0; w.cRfcOk = r[o + 2] != 0; return true; }

// ================================================================================================ scenario lists
static const int32 ENC_D = MUSCLE_MESSAGE_ENCODING_DEFAULT;
static int32 ENC_Z(int level) { return MUSCLE_MESSAGE_ENCODING_ZLIB_1 + level - 1; }
static std::string EncName(int32 e) { return e == ENC_D ? "default" : verif::Fmt("zlib%d", (int)(e - MUSCLE_MESSAGE_ENCODING_ZLIB_1 + 1)); }
static std::vector<std::string> SV(const char * a = NULL, const char * b = NULL, const char * c = NULL) { std::vector<std::string> v; if (a) v.push_back(a); if (b) v.push_back(b); if (c) v.push_back(c); return v; }
#define BL(lit) std::string(lit, sizeof(lit) - 1)   /* byte literal that may contain NULs */

struct NamedSeq { const char * name; std::vector<MsgSpec> msgs; };
static std::vector<NamedSeq> BinarySequences()
{
   std::vector<NamedSeq> v; NamedSeq s;
   s.name = "empty,int,empty"; s.msgs.clear(); s.msgs.push_back(MS(M_EMPTY, 1)); s.msgs.push_back(MS(M_INT, 2, 5)); s.msgs.push_back(MS(M_EMPTY, 3)); v.push_back(s);           // 20-byte Messages bypass compression
   s.name = "same-twice"; s.msgs.clear(); s.msgs.push_back(MS(M_STRA, 1, 7)); s.msgs.push_back(MS(M_STRA, 1, 7)); v.push_back(s);                                                // zlib dictionary carried over
   s.name = "a,b,a"; s.msgs.clear(); s.msgs.push_back(MS(M_STRA, 1, 1)); s.msgs.push_back(MS(M_STRB, 2, 2)); s.msgs.push_back(MS(M_STRA, 1, 1)); v.push_back(s);
   s.name = "nested,nan,empty"; s.msgs.clear(); s.msgs.push_back(MS(M_NESTED, 4, 3)); s.msgs.push_back(MS(M_NAN, 5, 9)); s.msgs.push_back(MS(M_EMPTY, 6)); v.push_back(s);
   s.name = "two-empty"; s.msgs.clear(); s.msgs.push_back(MS(M_EMPTY, 1)); s.msgs.push_back(MS(M_EMPTY, 1)); v.push_back(s);
   s.name = "int,a,empty,b"; s.msgs.clear(); s.msgs.push_back(MS(M_INT, 9, -1)); s.msgs.push_back(MS(M_STRA, 1, 2)); s.msgs.push_back(MS(M_EMPTY, 0)); s.msgs.push_back(MS(M_STRB, 3, 1)); v.push_back(s);
   return v;
}
static Kind BinKind(const std::vector<int32> & table) { Kind k; k.id = K_BIN; k.encTable = table; std::string n = "binary["; for (size_t i = 0; i < table.size(); i++) n += (i ? "," : "") + EncName(table[i]); k.name = n + "]"; return k; }
static Kind TplKind(uint32 lru, int32 enc) { Kind k; k.id = K_TPL; k.lruBytes = lru; k.encTable.push_back(enc); k.name = verif::Fmt("templating[lru=%u,", lru) + EncName(enc) + "]"; return k; }

static void BuildScenarios(bool thorough, std::vector<Scenario> & bin, std::vector<Scenario> & tpl, std::vector<Scenario> & txt, std::vector<Scenario> & raw, std::vector<Scenario> & slip)
{
   // ---- binary gateway: every encoding x the short sequences; scratch-buffer edge; encoding switches mid-stream
   const std::vector<NamedSeq> seqs = BinarySequences();
   for (int e = 0; e < 10; e++) {
      const int32 enc = (e == 0) ? ENC_D : ENC_Z(e);
      for (size_t q = 0; q < seqs.size(); q++) {
         const bool core = (e == 0 || e == 6) || q == 1;   // quick: default and zlib6 x all sequences, every other encoding x the dictionary sequence
         if (!thorough && !core) continue;
         Scenario s; s.kind = BinKind(std::vector<int32>(1, enc)); s.out.msgs = seqs[q].msgs; s.name = s.kind.name + " " + seqs[q].name; bin.push_back(s);
      }
   }
   { Scenario s; s.kind = BinKind(std::vector<int32>(1, ENC_D)); s.out.msgs.push_back(MS(M_RAW, 1, 2006)); s.out.msgs.push_back(MS(M_EMPTY, 2)); s.out.msgs.push_back(MS(M_RAW, 3, 2007)); s.out.msgs.push_back(MS(M_INT, 4, 1)); s.name = s.kind.name + " body=2040,empty,body=2041,int (2048-byte scratch receive buffer edge)"; bin.push_back(s); }
   { Scenario s; s.kind = BinKind(std::vector<int32>(1, ENC_Z(6))); s.out.msgs.push_back(MS(M_RAW, 1, 2006)); s.out.msgs.push_back(MS(M_RAW, 1, 2006)); s.out.msgs.push_back(MS(M_EMPTY, 2)); s.name = s.kind.name + " raw2006 twice,empty"; bin.push_back(s); }
   { std::vector<int32> t; t.push_back(ENC_D); t.push_back(ENC_Z(6)); t.push_back(ENC_Z(6)); t.push_back(ENC_Z(3)); t.push_back(ENC_D); t.push_back(ENC_Z(6));
     Scenario s; s.kind = BinKind(t); s.out.msgs.push_back(MS(M_STRA, 1, 1)); s.out.msgs.push_back(MS(M_STRA, 1, 1)); s.out.msgs.push_back(MS(M_STRB, 2, 1)); s.out.msgs.push_back(MS(M_STRA, 1, 1)); s.out.msgs.push_back(MS(M_STRA, 1, 2)); s.out.msgs.push_back(MS(M_STRB, 2, 1)); s.name = s.kind.name + " encoding switched per Message"; bin.push_back(s); }
   { std::vector<int32> t; t.push_back(ENC_Z(9)); t.push_back(ENC_D); t.push_back(ENC_Z(9));
     Scenario s; s.kind = BinKind(t); s.out.msgs.push_back(MS(M_STRA, 1, 1)); s.out.msgs.push_back(MS(M_STRA, 1, 1)); s.out.msgs.push_back(MS(M_STRA, 1, 1)); s.out.msgs.push_back(MS(M_STRB, 1, 1)); s.name = s.kind.name + " zlib9,default,zlib9 (codec kept across the default Message)"; bin.push_back(s); }
   { std::vector<int32> t; t.push_back(ENC_Z(1)); t.push_back(ENC_Z(2)); t.push_back(ENC_Z(1)); t.push_back(ENC_Z(2));
     Scenario s; s.kind = BinKind(t); for (int i = 0; i < 4; i++) s.out.msgs.push_back(MS(M_STRA, 1, 1)); s.name = s.kind.name + " level alternates (codec recreated on both ends)"; bin.push_back(s); }

   // ---- templating gateway: tiny LRU limits so that templates are evicted on both ends
   {
      std::vector<MsgSpec> a, b;
      a.push_back(MS(T_3INT, 1, 1)); a.push_back(MS(T_3INT, 1, 2)); a.push_back(MS(T_BYPASS, 2, 3)); a.push_back(MS(T_STR, 3, 1)); a.push_back(MS(T_3INT, 1, 3)); a.push_back(MS(M_EMPTY, 9)); a.push_back(MS(T_BYPASS, 2, 5));
      b.push_back(MS(T_SUB, 4, 1)); b.push_back(MS(T_ARR, 5, 1)); b.push_back(MS(T_SUB, 4, 2)); b.push_back(MS(T_ARR, 5, 0)); b.push_back(MS(T_STR, 3, 0)); b.push_back(MS(T_SUB, 4, 3)); b.push_back(MS(T_STR, 3, 1));
      {  // LRU ORDER matters: 3int, bypass, 3int (cache hit refreshes 3int on both ends), str (evicts the least recently used = bypass), 3int (still cached), bypass (re-created)
         Scenario s; s.kind = TplKind(150, ENC_D); s.out.msgs.push_back(MS(T_3INT, 1, 1)); s.out.msgs.push_back(MS(T_BYPASS, 2, 2)); s.out.msgs.push_back(MS(T_3INT, 1, 3)); s.out.msgs.push_back(MS(T_STR, 3, 0)); s.out.msgs.push_back(MS(T_3INT, 1, 4)); s.out.msgs.push_back(MS(T_BYPASS, 2, 5));
         s.name = s.kind.name + " 3int,bypass,3int,str,3int,bypass (eviction follows LRU order)"; tpl.push_back(s);
      }
      const uint32 lrus[] = {100, 1, 1024 * 1024}; const int32 encsQ[] = {ENC_D, ENC_Z(6)}; const int32 encsT[] = {ENC_D, ENC_Z(1), ENC_Z(6), ENC_Z(9)};
      const int32 * encs = thorough ? encsT : encsQ; const size_t ne = thorough ? 4 : 2;
      for (size_t l = 0; l < 3; l++) for (size_t e = 0; e < ne; e++) for (int q = 0; q < 2; q++) {
         Scenario s; s.kind = TplKind(lrus[l], encs[e]); s.out.msgs = q ? b : a; s.name = s.kind.name + (q ? " sub,arr,sub,arr,str,sub,str" : " 3int,3int,bypass,str,3int,what-only,bypass"); tpl.push_back(s);
      }
   }
   // ---- text gateway
   {
      const char * eols[] = {"\r\n", "\n", "\r"};
      for (int e = 0; e < 3; e++) {
         Scenario s; s.kind.id = K_TXT; s.kind.eol = eols[e]; s.kind.name = std::string("text[eol=") + verif::Hex(s.kind.eol) + "]";
         s.out.items.push_back(SV("abc", "", "de")); s.out.items.push_back(SV("x")); s.out.items.push_back(SV()); s.out.items.push_back(SV("", "")); s.out.items.push_back(SV("last line"));
         s.name = s.kind.name + " abc,'',de | x | (no lines) | '','' | last line"; txt.push_back(s);
      }
      Scenario r; r.kind.id = K_TXT; r.kind.name = "text[receiver]"; r.extraRx = "ab\rcd\n\nef\r\n\rgh\n\r\r\nij\r\n\n\rk\rtail"; r.name = "text receiver: mixed CR / LF / CRLF / LFCR terminators and an unterminated tail"; txt.push_back(r);
   }
   // ---- raw gateway: immediate-forward, minimum-chunk and small-maximum-chunk modes
   {
      const uint32 mins[] = {0, 4, 0}, maxs[] = {MUSCLE_NO_LIMIT, MUSCLE_NO_LIMIT, 3};
      for (int m = 0; m < 3; m++) {
         Scenario s; s.kind.id = K_RAW; s.kind.minChunk = mins[m]; s.kind.maxChunk = maxs[m]; s.kind.name = verif::Fmt("raw[min=%u,max=%s]", mins[m], maxs[m] == MUSCLE_NO_LIMIT ? "none" : "3");
         std::vector<std::string> a; a.push_back(BL("ab\xC0")); a.push_back(BL("\xDB")); s.out.items.push_back(a);
         std::vector<std::string> b; b.push_back(BL("cd\0fg\xDC\xDD")); s.out.items.push_back(b);
         s.out.items.push_back(SV()); s.out.items.push_back(SV("h"));
         s.name = s.kind.name + " chunks with END/ESC bytes, a NUL, a Message without chunks"; raw.push_back(s);
      }
   }
   // ---- SLIP gateway
   {
      Scenario s; s.kind.id = K_SLIP; s.kind.name = "slip";
      std::vector<std::string> a; a.push_back(BL("A\xC0" "B")); a.push_back(BL("\xDB\xDC")); s.out.items.push_back(a);
      std::vector<std::string> b; b.push_back(BL("\xDD")); s.out.items.push_back(b);
      s.out.items.push_back(SV("xyz")); s.out.items.push_back(SV()); s.out.items.push_back(SV("\xC0\xC0\xDB"));
      s.name = "slip frames with END/ESC/ESC_END/ESC_ESC bytes, a Message without frames"; slip.push_back(s);
      Scenario r; r.kind.id = K_SLIP; r.kind.name = "slip[receiver]"; r.extraRx = BL("\xC0\xC0" "A\xDB\xC0" "B\xDB" "A\xDB\xDB\xDC\xC0\xDB\xDD\xDC\xC0" "C\xDB"); r.name = "slip receiver: ESC before END, ESC before an ordinary byte, ESC ESC, double END, stream ending inside an escape"; slip.push_back(r);
   }
}

static void BuildWsScenarios(bool thorough, std::vector<WsScenario> & ws)
{
   { WsScenario w; w.name = "websocket slave=MessageIOGateway[default]"; w.cOut.msgs.push_back(MS(M_STRA, 1, 1)); w.cOut.msgs.push_back(MS(M_EMPTY, 2)); w.sOut.msgs.push_back(MS(M_STRB, 3, 1)); w.sOut.msgs.push_back(MS(M_INT, 4, 4)); ws.push_back(w); }
   { WsScenario w; w.name = "websocket slave=MessageIOGateway[zlib6]"; w.enc = ENC_Z(6); w.cOut.msgs.push_back(MS(M_STRA, 1, 1)); w.cOut.msgs.push_back(MS(M_STRA, 1, 1)); w.sOut.msgs.push_back(MS(M_STRB, 3, 1)); w.sOut.msgs.push_back(MS(M_STRB, 3, 1)); ws.push_back(w); }
   { WsScenario w; w.name = "websocket without slave (raw binary frames, payload sizes 2,1,3 / 3,1)"; w.slave = false; w.cOut.items.push_back(SV("ab", "c")); w.cOut.items.push_back(SV("def")); w.sOut.items.push_back(SV("xyz")); w.sOut.items.push_back(SV("q")); ws.push_back(w); }
   // payload sizes at the frame-length encodings' edges: 125 | 126 (8-byte slave header + 117 / 118 flattened bytes) and 65535 | 65536
   { WsScenario w; w.name = "websocket payload sizes 125,126"; w.cOut.msgs.push_back(MS(M_RAW, 1, 117 - 34)); w.cOut.msgs.push_back(MS(M_RAW, 2, 118 - 34)); w.sOut.msgs.push_back(MS(M_RAW, 3, 118 - 34)); w.sOut.msgs.push_back(MS(M_RAW, 4, 117 - 34)); ws.push_back(w); }
   { WsScenario w; w.name = "websocket payload sizes 65535,65536"; w.cOut.msgs.push_back(MS(M_RAW, 1, 65527 - 34)); w.cOut.msgs.push_back(MS(M_RAW, 2, 65528 - 34)); w.sOut.msgs.push_back(MS(M_RAW, 3, 65528 - 34)); w.sOut.msgs.push_back(MS(M_RAW, 4, 65527 - 34)); ws.push_back(w); }
   (void) thorough;
}

template <class T, class FPrep, class FSer, class FDes> static bool PrepareAll(std::vector<T> & v, const verif::Args & args, FPrep prep, FSer ser, FDes des, verif::Result & res, const char * what)
{
   std::vector<verif::ParRecord> recs; const std::vector<T> & cv = v;
   verif::ParMap(cv.size(), args.workers, [&](size_t i, std::string & rec) { T copy = cv[i]; prep(copy); ser(copy, rec); }, recs);
   if (recs.size() != v.size()) { res.infra_errors.push_back(std::string(what) + ": a fault-free preparation run died"); return false; }
   for (size_t r = 0; r < recs.size(); r++) if (!des(v[recs[r].idx], recs[r].data)) { res.infra_errors.push_back(std::string(what) + ": bad preparation record"); return false; }
   return true;
}

// window targets for long streams: around every unit boundary (and the gateway's internal edges relative to each unit start)
static void SparseTargets(const std::vector<uint32> & bounds, uint32 B, std::vector<uint32> & out, int ws = 0)
{
   std::set<uint32> t; std::vector<uint32> starts; starts.push_back(0); for (size_t i = 0; i < bounds.size(); i++) starts.push_back(bounds[i]);
   static const int relBin[] = {-3, -2, -1, 0, 1, 2, 3, 4, 5, 6, 7, 8, 9, 10, 11, 13, 14, 15, 16, 17, 2039, 2040, 2041, 2047, 2048, 2049, 2055, 2056, 2057};
   static const int relWs[] = {-2, -1, 0, 1, 2, 3, 4, 5, 6, 7, 8, 9, 10, 11, 13, 14, 15};   // frame headers are 2..14 bytes, the slave's Message header 8 more
   static const int relWsOut[] = {-1, 0, 1, 2, 7};   // the output side only keeps a cursor into its text / frame buffer
   const int * rel = (ws == 2) ? relWsOut : ws ? relWs : relBin; const size_t nrel = (ws == 2) ? sizeof(relWsOut) / sizeof(int) : ws ? sizeof(relWs) / sizeof(int) : sizeof(relBin) / sizeof(int);
   for (size_t i = 0; i < starts.size(); i++) for (size_t k = 0; k < nrel; k++) { const long v = (long)starts[i] + rel[k]; if (v >= 1 && v <= (long)B) t.insert((uint32)v); }
   t.insert(B); out.assign(t.begin(), t.end());
}
static const uint32 FULL_MODE_MAX_B = 330;
static void FinishSpec(Spec & sp, const std::vector<uint32> & outBounds)
{
   for (int dir = 0; dir < 2; dir++) if (sp.B(dir) > FULL_MODE_MAX_B) { sp.sparse[dir] = true; SparseTargets(dir == D_OUT ? outBounds : sp.inBoundaries, sp.B(dir), sp.targets[dir]); }
}
static Spec SenderSpec(const Scenario & sc) { Spec sp; sp.name = "sender: " + sc.name; sp.kind = sc.kind; sp.out = sc.out; sp.refOut = sc.ref; FinishSpec(sp, sc.boundaries); return sp; }
static Spec ReceiverSpec(const Scenario & sc) { Spec sp; sp.name = "receiver: " + sc.name; sp.kind = sc.RxKind(); sp.inStream = sc.ref; sp.inFlats = sc.sentFlats; sp.inBoundaries = sc.boundaries; FinishSpec(sp, std::vector<uint32>()); return sp; }
static std::vector<uint32> WithHeaderEnd(const std::string & stream, const std::vector<uint32> & b) { std::vector<uint32> v; const size_t h = stream.find("\r\n\r\n"); if (h != std::string::npos) v.push_back((uint32)h + 4); v.insert(v.end(), b.begin(), b.end()); return v; }

// ================================================================================================ running one SEQX part
static void ReportFaultFree(const std::string & part, const std::string & name, const std::string & key, const std::string & msg, const verif::Args & args, verif::Result & res, std::set<std::string> & seenKeys)
{
   if (key.find("harness:") == 0) { res.infra_errors.push_back(name + ": " + msg); return; }
   if (!seenKeys.insert(key).second) return;
   const std::string body = "{\"harness\": " + verif::JStr(res.harness) + ", \"part\": " + verif::JStr(part) + ", \"scenario\": " + verif::JStr(name) + ", \"observed\": " + verif::JStr(msg) + "}";
   res.AddViolation(key, part + ": " + name + ": " + msg, res.WriteReplay(args, part, body));
}

static seqx::Stats RunSeqxPart(const std::string & part, EndpointModel & m, const verif::Args & args, verif::Result & res, double absDeadline, const std::string & what)
{
   m.BuildAlphabet();
   seqx::Explorer<EndpointModel> ex(m, args, res, part);
   ex.SetDeadline(absDeadline);
   seqx::Stats S = ex.Run(40);
   verif::Part & p = res.parts.back();
   const bool closed = S.exhaustive && S.statesPerDepth.size() >= 2 && S.statesPerDepth.back() == 0;
   uint32 minB = 0xFFFFFFFFu, maxB = 0, nSparse = 0; for (size_t i = 0; i < m.specs.size(); i++) for (int d = 0; d < 2; d++) if (m.specs[i].B(d)) { minB = std::min(minB, m.specs[i].B(d)); maxB = std::max(maxB, m.specs[i].B(d)); if (m.specs[i].sparse[d]) nSparse++; }
   p.rule = what + verif::Fmt(" %u endpoint configurations (start states), streams of %u..%u bytes. One operation = one real DoOutput()/DoInput() call on a fresh replay of the history, with the scripted transport answering: a window up to EVERY later stream offset (streams <=%u bytes; for the %u longer streams the offsets within +-3..17 bytes of every Message/frame boundary and of the 2048-byte buffer edge), would-block, first call short then would-block / then unrestricted, at most 1/2/3/7 bytes per call, maxBytes 1 and 7 (for the longer streams these non-window patterns start only at a selected offset); plus a drain operation (fault-free completion from the reached state). States deduplicated on (configuration, bytes emitted, bytes consumed, the gateway's private transfer state read via -fno-access-control, delivered count+digest); explored breadth-first until no new state appears%s. After every call: emitted bytes are a prefix of the reference stream, delivered units equal exactly those complete in the consumed prefix, return value = bytes moved <= maxBytes, no error state, HasBytesToOutput() true while bytes remain.",
                               (unsigned)m.specs.size(), minB == 0xFFFFFFFFu ? 0 : minB, maxB, FULL_MODE_MAX_B, nSparse, closed ? " (graph closed: every segmentation expressible by these calls is covered)" : "");
   p.extra["graph_closed"] = closed ? "true" : "false";
   if (!closed && p.exhaustive) { p.exhaustive = false; p.cap = "depth cap 40 reached before the graph closed"; }
   fprintf(stderr, "C03 %-28s specs=%u states=%llu transitions=%llu depth=%d closed=%d violations=%llu wall=%.1fs\n", part.c_str(), (unsigned)m.specs.size(), (unsigned long long)S.states, (unsigned long long)S.transitions, S.depthCompleted, (int)closed, (unsigned long long)S.violations, p.wall_s);
   return S;
}

// ================================================================================================ hash-free enumerations (MUTX)
struct DirCfg { std::vector<uint32> cuts, blockAt; int policy; DirCfg() : policy(POLICY_ALL) {} };
static void ApplyCfg(Dir & d, const DirCfg & c) { d.cuts = c.cuts; d.blockAt = c.blockAt; d.policy = c.policy; d.budget = -1; }

// one complete sender -> receiver run under the given write-side and read-side schedules; returns "" or (key,msg)
static bool RunPipeline(const Kind & k, const Outgoing & og, const std::string & ref, const DirCfg & wc, const DirCfg & rc, bool senderFirst, std::string & key, std::string & msg, uint32 maxBytes = MUSCLE_NO_LIMIT, const Kind * rxKind = NULL)
{
   SetConsoleLogLevel(MUSCLE_LOG_NONE); verif_rand_counter = 0;
   const Kind & rk = rxKind ? *rxKind : k;
   const std::string kk = rxKind ? KindKey(k) + "-to-" + KindKey(rk) : KindKey(k);
   AbstractMessageIOGatewayRef snd = k.Make(), rcv = rk.Make(); ScriptIO sio, rio; ApplyCfg(sio.wr, wc); ApplyCfg(rio.rd, rc);
   snd()->SetDataIO(DummyDataIORef(sio)); rcv()->SetDataIO(DummyDataIORef(rio));
   Spec sp; sp.kind = rk; QueueAll(k, og, *snd(), &sp.inFlats); sp.inBoundaries.assign(sp.inFlats.size(), 0);
   Collector col; size_t moved = 0; int idle = 0; bool ok = true;
   for (int guard = 0; guard < 2000000 && ok; guard++) {
      bool progress = false;
      if (snd()->HasBytesToOutput()) { const size_t b = sio.out.size(); const io_status_t r = snd()->DoOutput(maxBytes); if (r.IsError()) { key = kk + ":pipe:output-error"; msg = verif::Fmt("DoOutput returned error [%s] after %u bytes", r.GetStatus()(), (unsigned)b); ok = false; break; } if (sio.out.size() != b) progress = true; }
      if (!senderFirst || !snd()->HasBytesToOutput() || !progress) {
         if (sio.out.size() > moved) { rio.in.append(sio.out, moved, std::string::npos); moved = sio.out.size(); }
         const size_t b = rio.inPos; const io_status_t r = rcv()->DoInput(col, maxBytes);
         if (r.IsError() && rio.inPos < rio.in.size()) { key = kk + ":pipe:input-error"; msg = verif::Fmt("DoInput returned error [%s] after %u bytes", r.GetStatus()(), (unsigned)b); ok = false; break; }
         if (rio.inPos != b) progress = true;
      }
      if (progress) idle = 0; else if (++idle > 4) break;
   }
   if (ok) {
      std::string e = k.ErrorOf(*snd()); if (e.empty()) e = rk.ErrorOf(*rcv());
      if (!e.empty()) { key = kk + ":pipe:gateway-error"; msg = e; ok = false; }
      else if (!ref.empty() && sio.out != ref) { size_t d = 0; while (d < sio.out.size() && d < ref.size() && sio.out[d] == ref[d]) d++; key = kk + ":pipe:emitted-stream-differs"; msg = verif::Fmt("sender emitted %u bytes, the unsegmented reference stream has %u; first difference at offset %u", (unsigned)sio.out.size(), (unsigned)ref.size(), (unsigned)d); ok = false; }
      else if (snd()->HasBytesToOutput()) { key = kk + ":pipe:sender-not-finished"; msg = verif::Fmt("sender still HasBytesToOutput() after %u bytes and no progress", (unsigned)sio.out.size()); ok = false; }
      else if (rio.inPos != sio.out.size()) { key = kk + ":pipe:receiver-stalls"; msg = verif::Fmt("receiver consumed %u of %u bytes and makes no progress", (unsigned)rio.inPos, (unsigned)sio.out.size()); ok = false; }
      else { sp.inStream = sio.out; const std::string d = CheckDelivered(sp, col, rcv(), (uint32)sio.out.size()); if (!d.empty()) { key = kk + ":pipe:delivered-differs"; msg = d; ok = false; } }
      if (ok && k.id == K_TPL) {   // "the two ends must keep their caches in step": same template ids in the same LRU order, same byte tally
         const TemplatingMessageIOGateway * a = static_cast<const TemplatingMessageIOGateway *>(snd()), * b = static_cast<const TemplatingMessageIOGateway *>(rcv());
         std::string ka, kb; for (HashtableIterator<uint64, MessageRef> it(a->_outgoingTemplates); it.HasData(); it++) ka += verif::Fmt("%llx,", (unsigned long long)it.GetKey()); for (HashtableIterator<uint64, MessageRef> it(b->_incomingTemplates); it.HasData(); it++) kb += verif::Fmt("%llx,", (unsigned long long)it.GetKey());
         if (ka != kb || a->_outgoingTemplatesTotalSizeBytes != b->_incomingTemplatesTotalSizeBytes) { key = kk + ":pipe:template-caches-out-of-step"; msg = verif::Fmt("sender's outgoing template cache [%s] (%u bytes) differs from the receiver's incoming cache [%s] (%u bytes) after the complete exchange", ka.c_str(), a->_outgoingTemplatesTotalSizeBytes, kb.c_str(), b->_incomingTemplatesTotalSizeBytes); ok = false; }
      }
   }
   snd()->SetDataIO(DataIORef()); rcv()->SetDataIO(DataIORef());
   return ok;
}

static uint64_t Choose(uint64_t n, int k) { if (k < 0 || (uint64_t)k > n) return 0; uint64_t r = 1; for (int i = 1; i <= k; i++) r = r * (n - (uint64_t)k + (uint64_t)i) / (uint64_t)i; return r; }
// idx-th k-subset (lexicographic) of {1..n}
static void Unrank(uint64_t idx, uint32 n, int k, std::vector<uint32> & out)
{
   out.clear(); uint32 a = 1;
   for (int left = k; left > 0; left--) { for (;; a++) { const uint64_t c = Choose(n - a, left - 1); if (idx < c) break; idx -= c; } out.push_back(a); a++; }
}
static std::string JU(const std::vector<uint32> & v) { std::string o = "["; for (size_t i = 0; i < v.size(); i++) o += verif::Fmt("%s%u", i ? "," : "", v[i]); return o + "]"; }

// ---- family: schedules with <=K cut points per side, every uniform chunk size, a would-block at every offset
struct CutsFamily {
   struct P { const Scenario * sc; uint32 B; int K; uint64_t nU, nC, nB, nM, total; };
   std::vector<P> ps; std::vector<uint64_t> starts; uint64_t total;
   CutsFamily() : total(0) {}
   void Add(const Scenario & sc, int K) { P p; p.sc = &sc; p.B = (uint32)sc.ref.size(); if (p.B < 2) return; p.K = K; p.nU = p.B; p.nC = 0; for (int k = 1; k <= K; k++) p.nC += Choose(p.B - 1, k); p.nB = p.B; p.nM = std::min(p.B, (uint32)64); p.total = p.nU + 2 * p.nC + 2 * p.nB + p.nM; starts.push_back(total); total += p.total; ps.push_back(p); }
   struct Decoded { const P * p; int fam; int side; std::vector<uint32> cuts; uint32 c; };   // fam 0 uniform, 1 cuts, 2 block
   Decoded Decode(uint64_t i) const
   {
      size_t pi = (size_t)(std::upper_bound(starts.begin(), starts.end(), i) - starts.begin()) - 1; const P & p = ps[pi]; i -= starts[pi];
      Decoded d; d.p = &p; d.side = 0; d.c = 0;
      if (i < p.nU) { d.fam = 0; d.c = (uint32)i + 1; return d; } i -= p.nU;
      if (i < 2 * p.nC) { d.fam = 1; d.side = (i >= p.nC) ? 1 : 0; if (d.side) i -= p.nC; for (int k = 1; k <= p.K; k++) { const uint64_t c = Choose(p.B - 1, k); if (i < c) { Unrank(i, p.B - 1, k, d.cuts); break; } i -= c; } return d; } i -= 2 * p.nC;
      if (i < 2 * p.nB) { d.fam = 2; d.side = (i >= p.nB) ? 1 : 0; if (d.side) i -= p.nB; d.c = (uint32)i; return d; } i -= 2 * p.nB;
      d.fam = 3; d.c = (uint32)i + 1; return d;
   }
   void Run(uint64_t i, mutx::Case & c) const
   {
      const Decoded d = Decode(i); DirCfg w, r;
      if (d.fam == 0) { w.policy = (int)d.c; r.policy = (int)d.c; }
      else if (d.fam == 1) { (d.side ? r : w).cuts = d.cuts; }
      else if (d.fam == 2) { DirCfg & x = d.side ? r : w; x.cuts.push_back(d.c); x.blockAt.push_back(d.c); }
      std::string key, msg;
      if (!RunPipeline(d.p->sc->kind, d.p->sc->out, d.p->sc->ref, w, r, (i & 1) != 0, key, msg, d.fam == 3 ? d.c : MUSCLE_NO_LIMIT, d.p->sc->hasRx ? &d.p->sc->rx : NULL)) c.Fail(key, d.p->sc->name + ": " + msg);
      else c.Outcome(verif::Fmt("%d", d.fam));
   }
   std::string Desc(uint64_t i) const
   {
      const Decoded d = Decode(i);
      std::string s = "{\"scenario\": " + verif::JStr(d.p->sc->name) + verif::Fmt(", \"stream_bytes\": %u, \"schedule\": ", d.p->B);
      if (d.fam == 0) s += verif::Fmt("\"every Write and every Read moves at most %u bytes\"", d.c);
      else if (d.fam == 1) s += verif::Fmt("\"%s side never crosses the cut offsets\", \"cuts\": ", d.side ? "read" : "write") + JU(d.cuts);
      else if (d.fam == 2) s += verif::Fmt("\"%s side: one would-block when the stream stands at offset %u\"", d.side ? "read" : "write", d.c);
      else s += verif::Fmt("\"transport unrestricted, every DoOutput and DoInput call is given maxBytes=%u\"", d.c);
      return s + verif::Fmt(", \"sender_runs_first\": %s}", (i & 1) ? "true" : "false");
   }
};

// ---- family: complete small alphabets x ALL segmentations (text / SLIP receivers and senders, raw pipeline)
static std::string NthString(uint64_t idx, const std::string & alphabet, uint32 len) { std::string s(len, '\0'); for (uint32 i = 0; i < len; i++) { s[len - 1 - i] = alphabet[(size_t)(idx % alphabet.size())]; idx /= alphabet.size(); } return s; }
struct AllSegRx {   // case = one stream; inside: every segmentation of it into consecutive reads
   Kind kind; std::string alphabet; uint32 maxLen; std::vector<uint64_t> starts; uint64_t total, runs;
   void Setup(KindId id, const std::string & alpha, uint32 L) { kind.id = id; alphabet = alpha; maxLen = L; total = 0; runs = 0; uint64_t n = 1; for (uint32 l = 1; l <= L; l++) { n *= alpha.size(); starts.push_back(total); total += n; runs += n << (l - 1); } }
   std::string StreamOf(uint64_t i) const { size_t li = (size_t)(std::upper_bound(starts.begin(), starts.end(), i) - starts.begin()) - 1; return NthString(i - starts[li], alphabet, (uint32)li + 1); }
   void Run(uint64_t i, mutx::Case & c) const
   {
      SetConsoleLogLevel(MUSCLE_LOG_NONE);
      const std::string s = StreamOf(i); const uint32 L = (uint32)s.size(); Spec sp; sp.kind = kind; sp.inStream = s; const std::string kk = KindKey(kind);
      for (uint32 mask = 0; mask < (1u << (L - 1)); mask++) {
         AbstractMessageIOGatewayRef gw = kind.Make(); ScriptIO io; gw()->SetDataIO(DummyDataIORef(io)); Collector col; uint32 from = 0; std::string bad;
         for (uint32 p = 1; p <= L && bad.empty(); p++) if (p == L || (mask & (1u << (p - 1)))) {
            io.in.append(s, from, p - from); from = p;
            const io_status_t r = gw()->DoInput(col);
            if (r.IsError() || (uint32)io.inPos != p) bad = verif::Fmt("DoInput returned %d / error=%d with %u bytes available", r.GetByteCount(), (int)r.IsError(), p - (uint32)io.inPos);
            else bad = CheckDelivered(sp, col, gw(), p);
         }
         gw()->SetDataIO(DataIORef());
         if (!bad.empty()) { c.Fail(kk + ":all-segmentations:receiver", verif::Fmt("stream %s read in pieces ending at mask 0x%x: ", verif::Hex(s).c_str(), mask) + bad); return; }
      }
      c.Outcome(verif::Fmt("%u", (unsigned)RefTextSplit(s).lines.size()));
   }
   std::string Desc(uint64_t i) const { const std::string s = StreamOf(i); return "{\"stream_hex\": " + verif::JStr(verif::Hex(s)) + verif::Fmt(", \"segmentations\": %u}", 1u << (s.size() - 1)); }
};
struct AllSegTx {   // case = one outgoing item sequence (lines / chunks grouped into Messages); inside: every segmentation of the emitted stream into accepted writes
   Kind kind; std::vector<Outgoing> seqs; uint64_t runs;
   void Run(uint64_t i, mutx::Case & c) const
   {
      SetConsoleLogLevel(MUSCLE_LOG_NONE);
      const Outgoing & og = seqs[(size_t)i]; std::string ref; RefEncode(kind, og, ref); const uint32 B = (uint32)ref.size(); const std::string kk = KindKey(kind);
      const uint32 nmask = (B >= 2) ? (1u << (B - 1)) : 1;
      for (uint32 mask = 0; mask < nmask; mask++) {
         DirCfg w, r; for (uint32 p = 1; p < B; p++) if (mask & (1u << (p - 1))) w.cuts.push_back(p);
         std::string key, msg;
         if (!RunPipeline(kind, og, ref, w, r, (mask & 1) != 0, key, msg)) { c.Fail(kk + ":all-segmentations:sender" + key.substr(key.rfind(':')), "write cuts " + JU(w.cuts) + ": " + msg); return; }
      }
      c.Outcome(verif::Fmt("%u", B));
   }
   std::string Desc(uint64_t i) const { const Outgoing & og = seqs[(size_t)i]; std::string s = "{\"messages\": ["; for (size_t a = 0; a < og.items.size(); a++) { s += a ? ", [" : "["; for (size_t b = 0; b < og.items[a].size(); b++) s += (b ? ", " : "") + verif::JStr(verif::Hex(og.items[a][b])); s += "]"; } std::string ref; RefEncode(kind, og, ref); return s + verif::Fmt("], \"stream_bytes\": %u}", (unsigned)ref.size()); }
};
// all ways to group a list of items into consecutive Messages
static void AddGroupings(const std::vector<std::string> & items, std::vector<Outgoing> & out)
{
   const size_t n = items.size(); if (n == 0) { Outgoing og; og.items.push_back(std::vector<std::string>()); out.push_back(og); return; }
   for (uint32 mask = 0; mask < (1u << (n - 1)); mask++) { Outgoing og; og.items.push_back(std::vector<std::string>()); for (size_t i = 0; i < n; i++) { og.items.back().push_back(items[i]); if (i + 1 < n && (mask & (1u << i))) og.items.push_back(std::vector<std::string>()); } out.push_back(og); }
}

// ---- family: WebSocket client <-> server pair under schedules on each of the four I/O sides
struct WsCutsFamily {
   // sides: 0 client-write 1 server-read 2 server-write 3 client-read.  cutPos / blkPos: the offsets used as cut points / would-block points
   // (every offset for short streams; for long streams the offsets around the handshake end and every frame boundary)
   struct P { const WsScenario * w; bool c2s; uint32 len[4]; std::vector<uint32> cutPos[4], blkPos[4]; int K; uint64_t per[4], nU, total; };
   std::vector<P> ps; std::vector<uint64_t> starts; uint64_t total;
   WsCutsFamily() : total(0) {}
   void Add(const WsScenario & w, int K)
   {
      P p; p.w = &w; p.c2s = w.c2sOk; p.K = K;
      const std::string cs = p.c2s ? w.cRef : w.cRef.substr(0, w.cRef.find("\r\n\r\n") + 4);
      const uint32 cl = (uint32)cs.size(), sl = (uint32)w.sRef.size();
      p.len[0] = p.len[1] = cl; p.len[2] = p.len[3] = sl;
      for (int s = 0; s < 4; s++) {
         const std::string & st = (s < 2) ? cs : w.sRef;
         if (p.len[s] <= 2000) { for (uint32 x = 1; x < p.len[s]; x++) p.cutPos[s].push_back(x); for (uint32 x = 0; x < p.len[s]; x++) p.blkPos[s].push_back(x); }
         else { std::vector<uint32> ends, t; const size_t h = st.find("\r\n\r\n"); WsFrameEnds(st, h + 4, ends); SparseTargets(WithHeaderEnd(st, ends), p.len[s], t, 1); for (size_t i = 0; i < t.size(); i++) if (t[i] < p.len[s]) { p.cutPos[s].push_back(t[i]); p.blkPos[s].push_back(t[i]); } p.blkPos[s].insert(p.blkPos[s].begin(), 0); }
      }
      p.nU = (std::max(cl, sl) <= 2000) ? std::max(cl, sl) : 64; p.total = p.nU;
      for (int s = 0; s < 4; s++) { p.per[s] = p.blkPos[s].size(); for (int k = 1; k <= K; k++) p.per[s] += Choose(p.cutPos[s].size(), k); p.total += p.per[s]; }
      starts.push_back(total); total += p.total; ps.push_back(p);
   }
   struct Decoded { const P * p; int fam; int side; std::vector<uint32> cuts; uint32 c; };
   Decoded Decode(uint64_t i) const
   {
      size_t pi = (size_t)(std::upper_bound(starts.begin(), starts.end(), i) - starts.begin()) - 1; const P & p = ps[pi]; i -= starts[pi];
      Decoded d; d.p = &p; d.side = 0; d.c = 0; d.fam = 0;
      if (i < p.nU) { d.c = (uint32)i + 1; return d; } i -= p.nU;
      for (int s = 0; s < 4; s++) {
         if (i >= p.per[s]) { i -= p.per[s]; continue; }
         d.side = s; if (i < p.blkPos[s].size()) { d.fam = 2; d.c = p.blkPos[s][(size_t)i]; return d; } i -= p.blkPos[s].size(); d.fam = 1;
         for (int k = 1; k <= p.K; k++) { const uint64_t c = Choose(p.cutPos[s].size(), k); if (i < c) { std::vector<uint32> idx; Unrank(i, (uint32)p.cutPos[s].size(), k, idx); for (size_t j = 0; j < idx.size(); j++) d.cuts.push_back(p.cutPos[s][idx[j] - 1]); break; } i -= c; }
         return d;
      }
      return d;
   }
   static const char * SideName(int s) { static const char * n[] = {"client-write", "server-read", "server-write", "client-read"}; return n[s]; }
   void Run(uint64_t i, mutx::Case & c) const
   {
      SetConsoleLogLevel(MUSCLE_LOG_NONE);
      const Decoded d = Decode(i); const WsScenario & w = *d.p->w;
      WsPair p; std::vector<std::string> cf, sf; p.Build(w, d.p->c2s, true, &cf, &sf);   // (client->server payload only where the fault-free exchange works; see websocket:client-to-server:not-delivered)
      Dir * sides[4] = { &p.cio.wr, &p.sio.rd, &p.sio.wr, &p.cio.rd };
      if (d.fam == 0) for (int s = 0; s < 4; s++) sides[s]->policy = (int)d.c;
      else if (d.fam == 1) sides[d.side]->cuts = d.cuts;
      else { sides[d.side]->cuts.push_back(d.c); sides[d.side]->blockAt.push_back(d.c); }
      std::string err; int idle = 0;
      for (int r = 0; r < 200000; r++) { if (p.Round(err)) idle = 0; else if (!err.empty() || ++idle > 3) break; }
      const std::string where = (d.fam == 0) ? "uniform" : SideName(d.side);
      const WebSocketMessageIOGateway * cg = static_cast<const WebSocketMessageIOGateway *>(p.c()), * sg = static_cast<const WebSocketMessageIOGateway *>(p.s());
      const std::string ph = (cg->IsHandshakeInProgress() || sg->IsHandshakeInProgress()) ? ":handshake" : ":frames";
      std::string e = err; if (e.empty()) { e = w.K(true).ErrorOf(*p.c()); if (!e.empty()) e = "client: " + e; } if (e.empty()) { e = w.K(false).ErrorOf(*p.s()); if (!e.empty()) e = "server: " + e; }
      if (!e.empty()) { c.Fail("websocket:pair:gateway-error:" + where + ph, w.name + ": " + e); return; }
      const std::string cExp = d.p->c2s ? w.cRef : w.cRef.substr(0, d.p->len[0]);
      if (p.cio.out != cExp || p.sio.out != w.sRef) { c.Fail("websocket:pair:emitted-stream-differs:" + where + ph, w.name + verif::Fmt(": client emitted %u bytes (reference %u), server %u (reference %u), or content differs", (unsigned)p.cio.out.size(), (unsigned)cExp.size(), (unsigned)p.sio.out.size(), (unsigned)w.sRef.size())); return; }
      const bool sOk = w.slave ? (p.ccol.flats == sf) : (p.ccol.chunks == w.sItems), cOk = !d.p->c2s || (w.slave ? (p.scol.flats == cf) : (p.scol.chunks == w.cItems));
      if (!sOk || !cOk) { c.Fail(std::string("websocket:pair:delivered-differs:") + where + ph, w.name + verif::Fmt(": client delivered %u units (server sent %u), server delivered %u (client sent %u), or content differs", (unsigned)(w.slave ? p.ccol.flats.size() : p.ccol.chunks.size()), (unsigned)(w.slave ? sf.size() : w.sItems.size()), (unsigned)(w.slave ? p.scol.flats.size() : p.scol.chunks.size()), (unsigned)(d.p->c2s ? (w.slave ? cf.size() : w.cItems.size()) : 0))); return; }
      if (p.c()->HasBytesToOutput() || p.s()->HasBytesToOutput()) { c.Fail("websocket:pair:output-left:" + where + ph, w.name + ": HasBytesToOutput() still true at the end"); return; }
      c.Outcome(where);
   }
   std::string Desc(uint64_t i) const
   {
      const Decoded d = Decode(i); std::string s = "{\"scenario\": " + verif::JStr(d.p->w->name) + ", \"schedule\": ";
      if (d.fam == 0) s += verif::Fmt("\"every Write and Read of both gateways moves at most %u bytes\"", d.c);
      else if (d.fam == 1) s += verif::Fmt("\"%s never crosses the cut offsets\", \"cuts\": ", SideName(d.side)) + JU(d.cuts);
      else s += verif::Fmt("\"%s: one would-block when its stream stands at offset %u\"", SideName(d.side), d.c);
      return s + "}";
   }
};

template <class F> static verif::Part & RunFamily(const std::string & part, const F & fam, uint64_t n, const verif::Args & args, verif::Result & res, double absDeadline, double cpuLimit)
{
   mutx::Runner R(args, res, part); R.SetCpuLimit(cpuLimit); R.SetDeadline(absDeadline);
   verif::Part & p = R.Run((size_t)n, [&](size_t i, mutx::Case & c) { fam.Run(i, c); }, [&](size_t i) { std::string d = fam.Desc(i); d.erase(d.size() - 1); return d + verif::Fmt(", \"case_index\": %llu, \"tier\": \"%s\"}", (unsigned long long)i, args.tier.c_str()); });
   fprintf(stderr, "C03 %-28s cases=%llu exhaustive=%d wall=%.1fs\n", part.c_str(), (unsigned long long)p.transitions, (int)p.exhaustive, p.wall_s);
   return p;
}

// ================================================================================================ main
struct Plan {
   bool T; std::string sfx;
   std::vector<Scenario> bin, tpl, txt, raw, slip, cgw; std::vector<WsScenario> ws; Scenario dupA, dupB;
   EndpointModel mBin, mTpl, mTxt, mRaw, mSlip, mDup, mWs, mC;
   CutsFamily cutsBin, cutsTpl, cutsC; WsCutsFamily cutsWs; AllSegRx textRx, slipRx; AllSegTx textTx, slipTx, rawTx;
};

static bool BuildPlan(Plan & P, const verif::Args & args, verif::Result & res, std::set<std::string> & ffKeys, uint64_t & ffRuns)
{
   const bool T = P.T;
   BuildScenarios(T, P.bin, P.tpl, P.txt, P.raw, P.slip); BuildWsScenarios(T, P.ws);
   // duplex endpoint: one binary gateway that sends and receives at the same time (zlib6 both ways)
   P.dupA.kind = BinKind(std::vector<int32>(1, ENC_Z(6))); P.dupA.out.msgs.push_back(MS(M_INT, 1, 5)); P.dupA.out.msgs.push_back(MS(M_EMPTY, 2)); if (T) P.dupA.out.msgs.push_back(MS(M_INT, 1, 5)); P.dupA.name = "duplex out: int,empty";
   P.dupB.kind = P.dupA.kind; P.dupB.out.msgs.push_back(MS(M_EMPTY, 7)); P.dupB.out.msgs.push_back(MS(M_INT, 8, -3)); if (T) P.dupB.out.msgs.push_back(MS(M_INT, 8, -3)); P.dupB.name = "duplex in: empty,int";
   std::vector<Scenario> dup; dup.push_back(P.dupA); dup.push_back(P.dupB);
   {  // C gateways: mini and micro, each as sender towards the C++ MessageIOGateway, as receiver from it, and paired with itself
      Kind cpp = BinKind(std::vector<int32>(1, ENC_D)); cpp.name = "MessageIOGateway[default]";
      Kind mini; mini.id = K_MINI_C; mini.name = "C MMessageGateway"; Kind micro; micro.id = K_MICRO_C; micro.name = "C UMessageGateway";
      std::vector<MsgSpec> a, b; a.push_back(MS(M_INT, 1, 5)); a.push_back(MS(M_STRA, 2, 7)); a.push_back(MS(M_EMPTY, 3)); a.push_back(MS(M_STRB, 4, 1)); b.push_back(MS(M_EMPTY, 1)); b.push_back(MS(M_EMPTY, 1)); b.push_back(MS(M_NAN, 5, 9)); b.push_back(MS(M_RAW, 6, 40));
      const Kind * cs[] = { &mini, &micro };
      for (int c = 0; c < 2; c++) for (int q = 0; q < 2; q++) for (int dir = 0; dir < 3; dir++) {
         Scenario s; s.out.msgs = q ? b : a; const char * qn = q ? " empty,empty,nan,raw40" : " int,str,empty,str";
         if (dir == 0) { s.kind = *cs[c]; s.hasRx = true; s.rx = cpp; s.name = cs[c]->name + " -> " + cpp.name + qn; }
         else if (dir == 1) { s.kind = cpp; s.hasRx = true; s.rx = *cs[c]; s.name = cpp.name + " -> " + cs[c]->name + qn; }
         else { s.kind = *cs[c]; s.name = cs[c]->name + " -> " + cs[c]->name + qn; }
         P.cgw.push_back(s);
      }
   }
   std::vector<Scenario> * groups[] = { &P.bin, &P.tpl, &P.txt, &P.raw, &P.slip, &dup, &P.cgw };
   for (size_t g = 0; g < 7; g++) if (!PrepareAll(*groups[g], args, PrepareScenarioInChild, SerializeScenario, DeserializeScenario, res, "scenario")) return false;
   if (!PrepareAll(P.ws, args, PrepareWsInChild, SerializeWs, DeserializeWs, res, "websocket scenario")) return false;
   P.dupA = dup[0]; P.dupB = dup[1];
   // ---- fault-free verdicts
   for (size_t g = 0; g < 7; g++) for (size_t i = 0; i < groups[g]->size(); i++) { const Scenario & s = (*groups[g])[i]; ffRuns += 2; if (!s.Ok() && args.replay.empty()) ReportFaultFree("ff-exchange" + P.sfx, s.name, s.failKey, s.failMsg, args, res, ffKeys); }
   for (size_t i = 0; i < P.ws.size(); i++) { ffRuns += 2; if (!P.ws[i].failKey.empty() && args.replay.empty()) ReportFaultFree("ff-exchange" + P.sfx, P.ws[i].name, P.ws[i].failKey, P.ws[i].failMsg, args, res, ffKeys); }
   // ---- SEQX models (only scenarios whose fault-free exchange works: segmentation results of a broken exchange would not count)
   struct { std::vector<Scenario> * v; EndpointModel * m; } mm[] = { { &P.bin, &P.mBin }, { &P.tpl, &P.mTpl }, { &P.txt, &P.mTxt }, { &P.raw, &P.mRaw }, { &P.slip, &P.mSlip }, { &P.cgw, &P.mC } };
   for (size_t g = 0; g < 6; g++) for (size_t i = 0; i < mm[g].v->size(); i++) {
      const Scenario & s = (*mm[g].v)[i]; if (!s.Ok()) continue;
      const bool cpair = (g == 5);   // C <-> C++ pairs: the C++ side alone is already covered by seqx-binary, explore the C endpoints
      if (s.extraRx.empty() && (!cpair || s.kind.id != K_BIN)) mm[g].m->specs.push_back(SenderSpec(s));
      if (!cpair || s.RxKind().id != K_BIN) mm[g].m->specs.push_back(ReceiverSpec(s));
   }
   if (P.dupA.Ok() && P.dupB.Ok()) { Spec sp = SenderSpec(P.dupA); sp.name = "duplex binary[zlib6]: sends int,empty while receiving empty,int"; sp.inStream = P.dupB.ref; sp.inFlats = P.dupB.sentFlats; sp.inBoundaries = P.dupB.boundaries; P.mDup.specs.push_back(sp); }
   for (size_t i = 0; i < P.ws.size(); i++) {
      const WsScenario & w = P.ws[i];
      if (w.failKey.find("websocket:fault-free") == 0 || w.cRfc.empty()) continue;
      if (!T && w.cRef.size() > 20000) continue;   // the 64 KiB payload scenario is explored as a graph in the thorough tier only (quick: fault-free exchange + pair schedules)
      if (w.s2cOk) {   // client endpoint: emits cRef, reads the server's stream
         Spec c; c.name = "client endpoint: " + w.name; c.kind = w.K(true); c.out = w.cOut; c.refOut = w.cRef; c.inStream = w.sRef; c.inFlats = w.sFlats; c.inItems = w.sItems; c.inBoundaries = w.sBounds;
         std::vector<uint32> cEnds; WsFrameEnds(w.cRef, w.cRef.find("\r\n\r\n") + 4, cEnds);
         c.sparse[0] = c.sparse[1] = true; SparseTargets(WithHeaderEnd(c.refOut, cEnds), c.B(D_OUT), c.targets[0], 2); SparseTargets(WithHeaderEnd(c.inStream, c.inBoundaries), c.B(D_IN), c.targets[1], 1); c.hsEnd[0] = (uint32)c.refOut.find("\r\n\r\n") + 4; c.hsEnd[1] = (uint32)c.inStream.find("\r\n\r\n") + 4; P.mWs.specs.push_back(c);
      }
      if (w.cRfcOk) {  // server endpoint: reads the client's stream as RFC 6455 prescribes it, emits sRef
         Spec s; s.name = "server endpoint (input = RFC 6455 conforming client stream): " + w.name; s.kind = w.K(false); s.out = w.sOut; s.refOut = w.sRef; s.inStream = w.cRfc; s.inFlats = w.cFlats; s.inItems = w.cItems; s.inBoundaries = w.cBounds;
         s.sparse[0] = s.sparse[1] = true; SparseTargets(WithHeaderEnd(s.refOut, w.sBounds), s.B(D_OUT), s.targets[0], 2); SparseTargets(WithHeaderEnd(s.inStream, s.inBoundaries), s.B(D_IN), s.targets[1], 1); s.hsEnd[0] = (uint32)s.refOut.find("\r\n\r\n") + 4; s.hsEnd[1] = (uint32)s.inStream.find("\r\n\r\n") + 4; P.mWs.specs.push_back(s);
      }
   }
   // ---- hash-free families
   for (size_t i = 0; i < P.bin.size(); i++) if (P.bin[i].Ok()) { const uint32 B = (uint32)P.bin[i].ref.size(); P.cutsBin.Add(P.bin[i], T ? (B <= 150 ? 3 : B <= 1000 ? 2 : 1) : (B <= 260 ? 2 : 1)); }
   for (size_t i = 0; i < P.tpl.size(); i++) if (P.tpl[i].Ok()) { const uint32 B = (uint32)P.tpl[i].ref.size(); P.cutsTpl.Add(P.tpl[i], T ? (B <= 150 ? 3 : 2) : ((B <= 260 || (P.tpl[i].kind.lruBytes == 150)) ? 2 : 1)); }
   for (size_t i = 0; i < P.cgw.size(); i++) if (P.cgw[i].Ok()) P.cutsC.Add(P.cgw[i], T ? ((uint32)P.cgw[i].ref.size() <= 150 ? 3 : 2) : 2);
   for (size_t i = 0; i < P.ws.size(); i++) if (!P.ws[i].cRfc.empty() && P.ws[i].s2cOk) P.cutsWs.Add(P.ws[i], (T && P.ws[i].cRef.size() < 2000) ? 2 : 1);
   P.textRx.Setup(K_TXT, std::string("a\r\n", 3), T ? 8 : 7);
   P.slipRx.Setup(K_SLIP, std::string("\x41\xC0\xDB\xDC\xDD", 5), T ? 7 : 6);
   {  // text senders: every sequence of <=3 lines over {"", "a", "bc"}, every grouping into Messages, eol CRLF and LF
      P.textTx.kind.id = K_TXT; P.textTx.runs = 0; const char * L[] = {"", "a", "bc"};
      std::vector<Outgoing> seqs; for (int n = 0; n <= 3; n++) { int cnt = 1; for (int i = 0; i < n; i++) cnt *= 3; for (int x = 0; x < cnt; x++) { std::vector<std::string> items; int y = x; for (int i = 0; i < n; i++) { items.push_back(L[y % 3]); y /= 3; } AddGroupings(items, seqs); } }
      P.textTx.seqs = seqs; for (size_t i = 0; i < seqs.size(); i++) { std::string r; RefEncode(P.textTx.kind, seqs[i], r); P.textTx.runs += (r.size() >= 2) ? (1ull << (r.size() - 1)) : 1; }
   }
   {  // SLIP senders: every chunk over the 5-symbol alphabet up to length 3 (4 thorough), and every pair of chunks of length <=1 in one or two Messages
      P.slipTx.kind.id = K_SLIP; P.slipTx.runs = 0; const std::string A("\x41\xC0\xDB\xDC\xDD", 5); std::vector<Outgoing> seqs;
      for (uint32 len = 1; len <= (T ? 4u : 3u); len++) { uint64_t cnt = 1; for (uint32 i = 0; i < len; i++) cnt *= 5; for (uint64_t x = 0; x < cnt; x++) { std::vector<std::string> items; items.push_back(NthString(x, A, len)); AddGroupings(items, seqs); } }
      for (int a = 1; a < 6; a++) for (int b = 1; b < 6; b++) { std::vector<std::string> items; items.push_back(std::string(1, A[(size_t)a - 1])); items.push_back(std::string(1, A[(size_t)b - 1])); AddGroupings(items, seqs); }
      P.slipTx.seqs = seqs; for (size_t i = 0; i < seqs.size(); i++) { std::string r; RefEncode(P.slipTx.kind, seqs[i], r); P.slipTx.runs += (r.size() >= 2) ? (1ull << (r.size() - 1)) : 1; }
   }
   return true;
}

// raw gateway: complete product of write segmentations x read segmentations for a short stream, in each mode
struct RawProduct {
   std::vector<Kind> kinds; Outgoing og; std::string ref; uint32 B;
   void Setup() { const uint32 mins[] = {0, 3, 0}, maxs[] = {MUSCLE_NO_LIMIT, MUSCLE_NO_LIMIT, 2}; for (int m = 0; m < 3; m++) { Kind k; k.id = K_RAW; k.minChunk = mins[m]; k.maxChunk = maxs[m]; kinds.push_back(k); }
      std::vector<std::string> a; a.push_back(BL("\xC0\xDB")); a.push_back("a"); og.items.push_back(a); og.items.push_back(SV()); og.items.push_back(SV("bcd", "e")); RefEncode(kinds[0], og, ref); B = (uint32)ref.size(); }
   uint64_t Count() const { return (uint64_t)kinds.size() << (B - 1); }   // case = (mode, write mask); inside: every read mask
   void Run(uint64_t i, mutx::Case & c) const
   {
      const Kind & k = kinds[(size_t)(i >> (B - 1))]; const uint32 wm = (uint32)(i & ((1u << (B - 1)) - 1));
      for (uint32 rm = 0; rm < (1u << (B - 1)); rm++) {
         DirCfg w, r; for (uint32 p = 1; p < B; p++) { if (wm & (1u << (p - 1))) w.cuts.push_back(p); if (rm & (1u << (p - 1))) r.cuts.push_back(p); }
         std::string key, msg; if (!RunPipeline(k, og, ref, w, r, (rm & 1) != 0, key, msg)) { c.Fail("raw:all-segmentations" + key.substr(key.rfind(':')), verif::Fmt("min=%u max=%u write cuts ", k.minChunk, k.maxChunk) + JU(w.cuts) + " read cuts " + JU(r.cuts) + ": " + msg); return; }
      }
      c.Outcome("ok");
   }
   std::string Desc(uint64_t i) const { const Kind & k = kinds[(size_t)(i >> (B - 1))]; return verif::Fmt("{\"min_chunk\": %u, \"max_chunk\": %u, \"write_cut_mask\": %u, \"stream_bytes\": %u, \"read_segmentations\": %u}", k.minChunk, k.maxChunk == MUSCLE_NO_LIMIT ? 0 : k.maxChunk, (unsigned)(i & ((1u << (B - 1)) - 1)), B, 1u << (B - 1)); }
};

int main(int argc, char ** argv)
{
   // Containment: a gateway that has lost its place in the stream (seeded mutants do) hands garbage to Message::Unflatten, which may ask for
   // tens of gigabytes; cap single allocations so that such a request fails (allocator_may_return_null is already set) instead of
   // exhausting the machine.  The sanitizer reads its options before main(), hence the one-time re-exec.
   if (!getenv("C03_ASAN_CAPPED")) {
      const char * old = getenv("ASAN_OPTIONS"); std::string o = (old && *old) ? std::string(old) + ":" : std::string(); o += "max_allocation_size_mb=1024";
      setenv("ASAN_OPTIONS", o.c_str(), 1); setenv("C03_ASAN_CAPPED", "1", 1); execv("/proc/self/exe", argv);
   }
   verif::Args args; args.Parse(argc, argv);
   verif::Result res; res.harness = "C03_gateways";
   verif::ReplayDoc rd; std::string replayPart;
   if (!args.replay.empty()) {
      if (!rd.Load(args.replay)) { fprintf(stderr, "cannot read %s\n", args.replay.c_str()); return 3; }
      replayPart = rd.Str("part");
      args.tier = (replayPart.size() > 9 && replayPart.compare(replayPart.size() - 9, 9, ".thorough") == 0) ? "thorough" : "quick";   // case lists and alphabets depend on the tier
   }
   Plan P; P.T = args.Thorough(); P.sfx = P.T ? ".thorough" : "";
   std::set<std::string> ffKeys; uint64_t ffRuns = 0;
   RawProduct rawProd; rawProd.Setup();
   const double t0 = verif::NowS();
   if (!BuildPlan(P, args, res, ffKeys, ffRuns)) return res.Write(args);
   const std::string sfx = P.sfx;

   struct SeqxPart { const char * name; EndpointModel * m; const char * what; double share; };
   SeqxPart sp[] = {
      { "seqx-binary", &P.mBin, "MessageIOGateway (per-Message encoding table: every encoding, switches mid-stream), sender alone and receiver alone:", 0.22 },
      { "seqx-templating", &P.mTpl, "TemplatingMessageIOGateway with LRU limits 100 / 1 / 1M bytes (templates evicted on both ends), sender alone and receiver alone:", 0.15 },
      { "seqx-text", &P.mTxt, "PlainTextMessageIOGateway, sender alone (eol CRLF / LF / CR) and receiver alone (incl. a hand-made stream of mixed terminators):", 0.04 },
      { "seqx-raw", &P.mRaw, "RawDataMessageIOGateway in immediate, minimum-chunk and maximum-chunk modes:", 0.03 },
      { "seqx-slip", &P.mSlip, "SLIPFramedDataMessageIOGateway, sender alone and receiver alone (incl. a hand-made stream of stray escapes):", 0.03 },
      { "seqx-duplex", &P.mDup, "one MessageIOGateway[zlib6] that sends and receives at once (input and output calls interleaved in every order):", 0.08 },
      { "seqx-c-gateways", &P.mC, "the C gateways MMessageGateway (minimessage) and UMessageGateway (micromessage) behind a calling-convention adapter, as senders and as receivers, fed by / feeding the C++ MessageIOGateway and themselves:", 0.05 },
      { "seqx-websocket", &P.mWs, "WebSocketMessageIOGateway client endpoint and server endpoint, handshake included, each with BOTH its directions scripted (input can enqueue output); window targets = offsets around the handshake end and every frame boundary; the two directions form a full product while either is inside its handshake text, afterwards one direction moves only while the other rests at 0 / handshake end / stream end; the server endpoint reads an RFC 6455 conforming client stream built by the harness from the real client's handshake text, key octets and slave-gateway payloads:", 0.15 },
   };
   const size_t nsp = sizeof(sp) / sizeof(sp[0]);

   // ---------------- replay
   if (!args.replay.empty()) {
      for (size_t i = 0; i < nsp; i++) if (replayPart == std::string(sp[i].name) + sfx) { sp[i].m->BuildAlphabet(); seqx::Explorer<EndpointModel> ex(*sp[i].m, args, res, replayPart); return ex.ReplayFile(rd); }
      if (replayPart == "ff-exchange" + sfx) {   // re-run the fault-free preparation of the named scenario
         const std::string want = rd.Str("scenario"); int rc = 0; bool found = false;
         std::vector<Scenario> * groups[] = { &P.bin, &P.tpl, &P.txt, &P.raw, &P.slip, &P.cgw };
         for (size_t g = 0; g < 6; g++) for (size_t i = 0; i < groups[g]->size(); i++) if ((*groups[g])[i].name == want) { found = true; const Scenario & s = (*groups[g])[i]; printf("replay ff-exchange %s\nresult: %s %s %s\n", want.c_str(), s.Ok() ? "OK" : "VIOLATION", s.failKey.c_str(), s.failMsg.c_str()); rc = s.Ok() ? 0 : 1; }
         for (size_t i = 0; i < P.ws.size(); i++) if (P.ws[i].name == want) { found = true; printf("replay ff-exchange %s\nresult: %s %s %s\n", want.c_str(), P.ws[i].failKey.empty() ? "OK" : "VIOLATION", P.ws[i].failKey.c_str(), P.ws[i].failMsg.c_str()); rc = P.ws[i].failKey.empty() ? 0 : 1; }
         return found ? rc : 3;
      }
      const size_t idx = (size_t)rd.Int("index"); mutx::Runner R(args, res, replayPart); R.SetCpuLimit(600);
#define REPLAY_FAM(NAME, FAM) if (replayPart == std::string(NAME) + sfx) return R.ReplayIndex(idx, [&](size_t i, mutx::Case & c) { (FAM).Run(i, c); }, [&](size_t i) { return (FAM).Desc(i); });
      REPLAY_FAM("hf-text-rx", P.textRx) REPLAY_FAM("hf-text-tx", P.textTx) REPLAY_FAM("hf-slip-rx", P.slipRx) REPLAY_FAM("hf-slip-tx", P.slipTx) REPLAY_FAM("hf-raw", rawProd)
      REPLAY_FAM("hf-cuts-c-gateways", P.cutsC) REPLAY_FAM("hf-cuts-binary", P.cutsBin) REPLAY_FAM("hf-cuts-templating", P.cutsTpl) REPLAY_FAM("hf-cuts-websocket", P.cutsWs)
      fprintf(stderr, "unknown part %s\n", replayPart.c_str()); return 3;
   }

   // ---------------- ff part
   {
      verif::Part p; p.name = "ff-exchange" + sfx; p.states = ffRuns / 2; p.transitions = ffRuns; p.evaluations = ffRuns; p.distinct_outcomes = 1 + ffKeys.size(); p.bound_completed = 0; p.wall_s = verif::NowS() - t0;
      p.rule = verif::Fmt("fault-free unsegmented exchange (sender -> transport that accepts everything -> receiver that finds everything available) for each of the %llu gateway configurations x sequences used below, in both directions for the WebSocket pair; text/raw/SLIP streams additionally compared with the harness's reference encoders, WebSocket client frames with an RFC 6455 reference framer. Must pass before a configuration's segmentation results count; a failing configuration is its own violation class.", (unsigned long long)(ffRuns / 2));
      if (!P.ws.empty()) p.samples.push_back("{\"scenario\": " + verif::JStr(P.ws[0].name) + verif::Fmt(", \"client_stream_bytes\": %u, \"server_stream_bytes\": %u, \"client_to_server_delivered\": %s, \"server_to_client_delivered\": %s}", (unsigned)P.ws[0].cRef.size(), (unsigned)P.ws[0].sRef.size(), P.ws[0].c2sOk ? "true" : "false", P.ws[0].s2cOk ? "true" : "false"));
      if (!P.bin.empty()) p.samples.push_back("{\"scenario\": " + verif::JStr(P.bin[0].name) + verif::Fmt(", \"stream_bytes\": %u, \"ok\": %s}", (unsigned)P.bin[0].ref.size(), P.bin[0].Ok() ? "true" : "false"));
      res.parts.push_back(p);
      fprintf(stderr, "C03 %-28s exchanges=%llu failing classes=%u\n", p.name.c_str(), (unsigned long long)(ffRuns / 2), (unsigned)ffKeys.size());
   }
   // ---------------- SEQX parts
   double used = 0.02;
   for (size_t i = 0; i < nsp; i++) {
      used += sp[i].share;
      if (!args.WantPart(sp[i].name) || sp[i].m->specs.empty()) continue;
      RunSeqxPart(std::string(sp[i].name) + sfx, *sp[i].m, args, res, args.t0 + args.deadline * 0.9 * used, sp[i].what);
   }
   // ---------------- hash-free parts
   const double dl = args.t0 + args.deadline * 0.9;
   if (args.WantPart("hf-text-rx")) { verif::Part & p = RunFamily("hf-text-rx" + sfx, P.textRx, P.textRx.total, args, res, dl, 30); p.evaluations = P.textRx.runs; p.states = p.transitions;
      p.rule = verif::Fmt("PlainTextMessageIOGateway receiver, fully exhaustive: ALL %llu non-empty streams over {'a',CR,LF} up to length %u, each under ALL 2^(n-1) segmentations into consecutive reads (%llu runs, evaluations); after every read the delivered LINE sequence and the held partial line must equal the reference splitter (CR, LF, CRLF each end one line)", (unsigned long long)P.textRx.total, P.textRx.maxLen, (unsigned long long)P.textRx.runs); }
   if (args.WantPart("hf-text-tx")) { verif::Part & p = RunFamily("hf-text-tx" + sfx, P.textTx, P.textTx.seqs.size(), args, res, dl, 60); p.evaluations = P.textTx.runs; p.states = p.transitions;
      p.rule = verif::Fmt("PlainTextMessageIOGateway sender -> receiver: every sequence of <=3 lines over {'', 'a', 'bc'} in every grouping into Messages (%llu cases), each under ALL 2^(B-1) segmentations of the emitted stream into accepted writes (%llu runs); emitted stream = lines + CRLF, delivered lines = sent lines", (unsigned long long)P.textTx.seqs.size(), (unsigned long long)P.textTx.runs); }
   if (args.WantPart("hf-slip-rx")) { verif::Part & p = RunFamily("hf-slip-rx" + sfx, P.slipRx, P.slipRx.total, args, res, dl, 30); p.evaluations = P.slipRx.runs; p.states = p.transitions;
      p.rule = verif::Fmt("SLIPFramedDataMessageIOGateway receiver, fully exhaustive: ALL %llu non-empty streams over {0x41, END, ESC, ESC_END, ESC_ESC} up to length %u, each under ALL 2^(n-1) read segmentations (%llu runs); after every read the delivered non-empty frames must equal the reference RFC 1055 decoder", (unsigned long long)P.slipRx.total, P.slipRx.maxLen, (unsigned long long)P.slipRx.runs); }
   if (args.WantPart("hf-slip-tx")) { verif::Part & p = RunFamily("hf-slip-tx" + sfx, P.slipTx, P.slipTx.seqs.size(), args, res, dl, 60); p.evaluations = P.slipTx.runs; p.states = p.transitions;
      p.rule = verif::Fmt("SLIPFramedDataMessageIOGateway sender -> receiver: every non-empty chunk over the 5-symbol alphabet up to length %d and every pair of 1-byte chunks in one or two Messages (%llu cases), each under ALL segmentations of the emitted stream into accepted writes (%llu runs); emitted stream = reference SLIP encoder, delivered non-empty frames = sent non-empty chunks", P.T ? 4 : 3, (unsigned long long)P.slipTx.seqs.size(), (unsigned long long)P.slipTx.runs); }
   if (args.WantPart("hf-raw")) { verif::Part & p = RunFamily("hf-raw" + sfx, rawProd, rawProd.Count(), args, res, dl, 60); p.evaluations = rawProd.Count() << (rawProd.B - 1); p.states = p.transitions;
      p.rule = verif::Fmt("RawDataMessageIOGateway sender -> receiver in 3 modes (immediate, minimum chunk 3, maximum chunk 2): a %u-byte stream (chunks incl. 0xC0 0xDB, a Message without chunks) under the complete product of ALL write segmentations x ALL read segmentations (%llu runs); concatenated delivered bytes = sent bytes, chunk size limits respected", rawProd.B, (unsigned long long)(rawProd.Count() << (rawProd.B - 1))); }
   if (args.WantPart("hf-cuts-binary") && P.cutsBin.total) { verif::Part & p = RunFamily("hf-cuts-binary" + sfx, P.cutsBin, P.cutsBin.total, args, res, dl, 60); p.states = p.transitions;
      p.rule = verif::Fmt("deviation-bounded, no hashing: MessageIOGateway sender -> receiver end to end for %u (encoding, sequence) configurations; per configuration every schedule with <=%s cut points (offsets no single Write resp. Read crosses) on the write side and on the read side over ALL byte offsets, every uniform chunk size 1..B on both sides, one would-block inserted at EVERY offset on either side, and every maxBytes argument 1..64 with an unrestricted transport; emitted stream = reference, delivered = sent in order exactly once, nothing left to output", (unsigned)P.cutsBin.ps.size(), P.T ? "3 (streams <=150 bytes), 2 (<=1000), 1 (longer)" : "2 (streams <=260 bytes), 1 (longer)"); }
   if (args.WantPart("hf-cuts-templating") && P.cutsTpl.total) { verif::Part & p = RunFamily("hf-cuts-templating" + sfx, P.cutsTpl, P.cutsTpl.total, args, res, dl, 60); p.states = p.transitions;
      p.rule = verif::Fmt("as hf-cuts-binary for the TemplatingMessageIOGateway: %u (LRU limit, encoding, sequence) configurations, <=%s cut points per side, every uniform chunk size, a would-block at every offset", (unsigned)P.cutsTpl.ps.size(), P.T ? "3 (streams <=150 bytes) / 2" : "2 (streams <=260 bytes and the LRU-order sequence) / 1"); }
   if (args.WantPart("hf-cuts-c-gateways") && P.cutsC.total) { verif::Part & p = RunFamily("hf-cuts-c-gateways" + sfx, P.cutsC, P.cutsC.total, args, res, dl, 60); p.states = p.transitions;
      p.rule = verif::Fmt("as hf-cuts-binary for the C gateways: %u pairings (C mini / C micro gateway -> C++ MessageIOGateway, C++ -> C, C -> same C gateway) x 2 sequences; <=%d cut points per side, every uniform chunk size, a would-block at every offset, every maxBytes 1..64; delivered (flattened with the C++ Message class) = sent", (unsigned)P.cutsC.ps.size(), P.T ? 3 : 2); }
   if (args.WantPart("hf-cuts-websocket") && P.cutsWs.total) { verif::Part & p = RunFamily("hf-cuts-websocket" + sfx, P.cutsWs, P.cutsWs.total, args, res, dl, 120); p.states = p.transitions;
      p.rule = verif::Fmt("WebSocket client <-> server pair (handshake + frames in both directions where the fault-free exchange works), %u scenarios: every schedule with <=%d cut points on each of the four I/O sides (client-write, server-read, server-write, client-read), one would-block at EVERY offset of each side, every uniform chunk size on all sides; both emitted streams = reference, delivered = sent, no gateway error", (unsigned)P.cutsWs.ps.size(), P.T ? 2 : 1); }

   res.observations.push_back("out of the compared domain: zero-length raw chunks (Message::AddData refuses them; a zero-length item added through AddFlat(ByteBufferRef) is answered B_TYPE_MISMATCH by Message::FindData, so the raw, SLIP and WebSocket senders drop it together with every later chunk of the same Message), text lines containing CR or LF, PlainTextMessageIOGateway::SetFlushPartialIncomingLines(true) (line grouping then depends on the segmentation by design), packet-mode (UDP style) operation of the stream gateways");
   res.observations.push_back("not compared: WebSocketMessageIOGateway::DoInput does not count handshake bytes in its return value and ignores maxBytes while the handshake is in progress");
   res.observations.push_back("RawDataMessageIOGateway::DoOutputImplementation and PlainTextMessageIOGateway::DoOutputImplementationAux recurse once per accepted partial write inside one DoOutput() call (the text gateway stops at depth 1024, the raw gateway has no limit); streams here are a few hundred bytes, so stack depth under thousands of consecutive short writes is not exercised");
   for (size_t i = 0; i < P.ws.size(); i++) if (!P.ws[i].c2sOk) { res.observations.push_back("websocket client->server payload is not deliverable in the fault-free exchange (" + P.ws[i].name + "): the server endpoint is explored with an RFC 6455 conforming client stream built by the harness, the pair enumeration carries server->client payload only"); break; }
   fprintf(stderr, "C03: violations=%u wall=%.1fs\n", (unsigned)res.violations.size(), verif::NowS() - args.t0);
   return res.Write(args);
}
