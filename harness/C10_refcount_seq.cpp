// C10 (sequential part) -- Reference-counted and pooled objects are released exactly once, never early.
// SEQX exploration: 3 real Ref<Obj> variables + 1 real ConstRef<Obj> over pooled (tiny real ObjectPool, 2 objects per slab) and
// heap-allocated instrumented objects, against a shadow reference model (variable -> logical object, per-object counting references,
// object-to-object link), advanced in lock-step.  The concurrent part of C10 lives in C10_refcount_sched.cpp (SCHEDX).
#include "engines/seqx/seqx.h"
#include "util/RefCount.h"
#include "util/ObjectPool.h"

using namespace muscle;

// ---------------------------------------------------------------- instrumented payload type
enum { MAGIC_LIVE = 0xA11CE, MAGIC_DEAD = 0xDEAD };
struct Ev { char kind; int id; const void * addr; };   // 'C' storage constructed, 'K' copy-constructed (heap clone), 'A' assigned from a non-default object (pooled clone),
                                                       // 'R' reset by assignment of the default object (= pool recycle), 'D' storage destroyed
static Ev   g_log[128]; static int g_logN = 0; static bool g_logOverflow = false;
static long g_liveStorage = 0;      // constructed - destroyed Obj instances (slab nodes + heap objects + the static default object)
static long g_poison = 0;           // a destroyed instance was touched through an Obj member function
static long g_dirtyCloneTarget = 0; // a pooled clone target was not in default state when it was assigned to
static long g_unexpectedCopies = 0; // a copy happened that the harness did not announce
static int  g_cloneId = 0;          // lifetime id to stamp on the next announced copy
class Obj;
static const Obj * g_default = NULL;
static bool g_inProbe = false, g_keepStderr = false, g_hazardSurvived = false;
static void Log(char k, int id, const void * a) { if (g_logN < 128) { g_log[g_logN].kind = k; g_log[g_logN].id = id; g_log[g_logN].addr = a; g_logN++; } else g_logOverflow = true; }

class Obj : public RefCountable {
public:
   int payload;      // user data, 0 in the default state
   int lifeId;       // lifetime id of the logical object living in this storage; 0 = none (fresh / recycled / pool-free)
   unsigned magic;
   Ref<Obj> link;    // an object may itself hold a reference (its release must cascade)
   Obj() : payload(0), lifeId(0), magic(MAGIC_LIVE) { g_liveStorage++; Log('C', 0, this); }
   Obj(const Obj & o) : RefCountable(o), payload(o.payload), lifeId(g_cloneId), magic(MAGIC_LIVE), link(o.link) { o.Touch(); g_liveStorage++; if (g_cloneId == 0) g_unexpectedCopies++; g_cloneId = 0; Log('K', lifeId, this); }
   Obj & operator=(const Obj & o)
   {
      Touch(); o.Touch();
      if (&o == g_default) { Log('R', lifeId, this); lifeId = 0; payload = 0; link = o.link; }   // ObjectPool::ReleaseObject: "*obj = GetDefaultObject()"
      else if (this != &o) {
         if (lifeId != 0 || payload != 0 || link() != NULL) g_dirtyCloneTarget++;
         if (g_cloneId == 0) g_unexpectedCopies++;
         lifeId = g_cloneId; g_cloneId = 0; payload = o.payload; link = o.link; Log('A', lifeId, this);
      }
      RefCountable::operator=(o);
      return *this;
   }
   virtual ~Obj() { if (magic != MAGIC_LIVE) g_poison++; Log('D', lifeId, this); magic = MAGIC_DEAD; g_liveStorage--; }   // `link` is released after this body: cascade events follow
   void Touch() const { if (magic != MAGIC_LIVE) g_poison++; }
};

// a slab holds exactly two objects
enum { SLAB_BYTES_2 = sizeof(ObjectPool<Obj>::ObjectSlabData) + 2 * sizeof(ObjectPool<Obj>::ObjectNode) };
typedef ObjectPool<Obj, SLAB_BYTES_2> Pool;
static_assert(Pool::NUM_OBJECTS_PER_SLAB == 2, "slab size parameter does not give 2 objects per slab");

// error strings at an even and at an odd address (a null Ref stores the status pointer in the same tagged word as the object pointer)
alignas(8) static const char g_errBuf[] = "OddEven error";
static const char * const g_errEven = &g_errBuf[0];
static const char * const g_errOdd  = &g_errBuf[1];

// ---------------------------------------------------------------- reference model
enum { E_OK = 0, E_NULLREF, E_EVEN, E_ODD, E_UNKNOWN };
struct MObj { int id; bool pooled; int count; int payload; int link; bool alive; Obj * addr; };
struct MVar { int obj; bool counting; int err; MVar() : obj(-1), counting(false), err(E_NULLREF) {} };
enum { NVARS = 4 };   // 0..2 = Ref<Obj> r0..r2, 3 = ConstRef<Obj> c0
struct RefModel {
   std::vector<MObj> objs; MVar v[NVARS]; std::vector<int> deaths;
   int New(bool pooled, int id) { MObj o; o.id = id; o.pooled = pooled; o.count = 0; o.payload = 1000 + id; o.link = -1; o.alive = true; o.addr = NULL; objs.push_back(o); return (int)objs.size() - 1; }
   void Inc(int o) { objs[o].count++; }
   void Kill(int o) { objs[o].alive = false; deaths.push_back(o); int l = objs[o].link; objs[o].link = -1; if (l >= 0) Dec(l); }
   void Dec(int o) { if (--objs[o].count == 0) Kill(o); }
   void Drop(MVar & x) { if (x.obj >= 0 && x.counting) Dec(x.obj); x.obj = -1; x.counting = false; x.err = E_NULLREF; }
   // ideal assignment "dst now refers to o": the new referent gains its reference before the old one loses its
   void Assign(MVar & dst, int o, bool counting, int errIfNull)
   {
      if (o >= 0 && o == dst.obj) {  // same object: documented SetRef(same item, other mode) -- switching to non-counting decrements without ever deleting
         if (counting != dst.counting) { if (counting) Inc(o); else objs[o].count--; dst.counting = counting; }
         return;
      }
      if (o >= 0) { if (counting) Inc(o); MVar old = dst; dst.obj = o; dst.counting = counting; dst.err = E_OK; Drop(old); }
      else { Drop(dst); dst.err = errIfNull; }
   }
   void AssignLink(int holder, int target) { if (objs[holder].link == target) return; Inc(target); int old = objs[holder].link; objs[holder].link = target; if (old >= 0) Dec(old); }
   bool Reaches(int from, int to) const { for (int o = from, n = 0; o >= 0 && n < 64; o = objs[o].link, n++) if (o == to) return true; return false; }
   int NumAlive() const { int n = 0; for (size_t i = 0; i < objs.size(); i++) if (objs[i].alive) n++; return n; }
   // domain: no variable may be left pointing at a dead object (only a non-counting alias can; using it is documented as the caller's
   // responsibility), and no live object may become unreachable (documented leak after SetRef(item,false))
   bool InDomain(int maxLive) const
   {
      for (int i = 0; i < NVARS; i++) if (v[i].obj >= 0 && !objs[v[i].obj].alive) return false;
      std::vector<char> reach(objs.size(), 0);
      for (int i = 0; i < NVARS; i++) for (int o = v[i].obj, n = 0; o >= 0 && n < 64; o = objs[o].link, n++) reach[o] = 1;
      for (size_t o = 0; o < objs.size(); o++) if (objs[o].alive && !reach[o]) return false;
      return NumAlive() <= maxLive;
   }
};

enum OpKind { OBTAIN, HEAPNEW, COPYTEMP, ASSIGN, SELFASSIGN, SELFMOVE, RESET, SWAP, MOVE, TOCONST, FROMCONST, CONST_RESET, ALIAS, ALIAS_OTHER, RECOUNT, ENSUREPRIVATE,
              LINK, UNLINK, ADOPT_LINK, DRAIN, RELEASE_ALL_DRAIN, SETSTATUS_EVEN, SETSTATUS_ODD, SETREF_NULL, NUM_KINDS };
static const char * KindName[] = { "r%d=Ref(pool.ObtainObject())", "r%d.SetRef(new Obj)", "copy-construct temporaries of all refs and drop them", "r%d=r%d", "r%d=r%d(self)", "r%d=move(r%d)(self)", "r%d.Reset()", "r%d.SwapContents(r%d)", "r%d=move(r%d)",
   "c0=r%d", "r%d=CastAwayConstFromRef(c0)", "c0.Reset()", "r%d.SetRef(r%d(),false)(stop counting)", "r%d.SetRef(r%d(),false)(alias)", "r%d.SetRef(r%d(),true)(resume counting)", "v%d.EnsureRefIsPrivate()",
   "r%d()->link=r%d", "r%d()->link.Reset()", "r%d=r%d()->link", "pool.Drain()", "release all refs; pool.Drain()", "r%d.SetStatus(even-address error)", "r%d.SetStatus(odd-address error)", "r%d.SetRef(NULL)" };
static const char * KindKey[] = { "Obtain", "SetRef(new)", "CopyCtor", "Assign", "SelfAssign", "SelfMove", "Reset", "SwapContents", "MoveAssign", "RefToConstRef", "CastAwayConstFromRef", "ConstRef.Reset", "SetRef(same,false)", "SetRef(other,false)", "SetRef(same,true)",
   "EnsureRefIsPrivate", "LinkAssign", "LinkReset", "AssignFromOwnLink", "Drain", "ReleaseAllDrain", "SetStatus", "SetStatus", "SetRef(NULL)" };
struct Op { OpKind k; int a, b; };

struct World {
   Pool * pool; Ref<Obj> r[3]; ConstRef<Obj> c0;
   RefModel m; int nextId; long storageBase; bool broken; std::string last, initFail, initFailKey;
   World() : pool(NULL), nextId(1), storageBase(0), broken(false) {}
   const ConstRef<Obj> & V(int i) const { return (i < 3) ? (const ConstRef<Obj> &)r[i] : c0; }
   ConstRef<Obj> & V(int i) { return (i < 3) ? (ConstRef<Obj> &)r[i] : c0; }
   ~World()
   {
      if (pool == NULL) return;
      if (broken) { for (int i = 0; i < NVARS; i++) V(i).Neutralize(); return; }   // the implementation state cannot be trusted any more: leak it, never crash on the way out
      for (int i = 0; i < NVARS; i++) { V(i).Reset(); m.Drop(m.v[i]); }
      // objects left with count 0 behind a (now dropped) non-counting alias: adopt and drop
      for (bool again = true; again;) { again = false; for (size_t o = 0; o < m.objs.size(); o++) if (m.objs[o].alive && m.objs[o].count == 0) { { Ref<Obj> t(m.objs[o].addr); } m.Kill((int)o); again = true; break; } }
      // never crash on the way out: a pool that still has nodes in use here (only possible with a defective implementation; the
      // "release all refs; pool.Drain()" operation reports that) is leaked instead of destroyed, because ~ObjectPool would abort
      for (const Pool::ObjectSlab * s = pool->_firstSlab; s; s = s->_data._next) if (s->_data._numNodesInUse > 0) return;
      delete pool;
   }
};

class RefCountModel {
public:
   std::vector<Op> ops; std::vector<std::string> names;
   int maxLive;
   struct Start { uint32 maxPool; std::vector<int> prefix; std::string name; };
   std::vector<Start> starts;

   int Find(OpKind k, int a = 0, int b = 0) const { for (size_t i = 0; i < ops.size(); i++) if (ops[i].k == k && ops[i].a == a && ops[i].b == b) return (int)i; fprintf(stderr, "C10: no such op %d(%d,%d)\n", (int)k, a, b); exit(3); }
   void A(OpKind k, int a = 0, int b = 0) { Op o; o.k = k; o.a = a; o.b = b; ops.push_back(o); names.push_back(verif::Fmt(KindName[k], a, b)); }

   RefCountModel(int maxLive_) : maxLive(maxLive_)
   {
      // simplest first
      for (int i = 0; i < 3; i++) A(OBTAIN, i);
      for (int i = 0; i < 3; i++) A(HEAPNEW, i);
      for (int i = 0; i < 3; i++) A(RESET, i);
      A(COPYTEMP);
      for (int i = 0; i < 3; i++) for (int j = 0; j < 3; j++) if (i != j) A(ASSIGN, i, j);
      A(SELFASSIGN, 0, 0); A(SELFASSIGN, 1, 1); A(SELFMOVE, 0, 0);
      A(SWAP, 0, 1); A(SWAP, 0, 2); A(SWAP, 1, 2);
      A(MOVE, 0, 1); A(MOVE, 1, 2); A(MOVE, 2, 0);
      for (int i = 0; i < 3; i++) A(TOCONST, i);
      for (int i = 0; i < 3; i++) A(FROMCONST, i);
      A(CONST_RESET);
      for (int i = 0; i < 3; i++) A(ALIAS, i, i);
      A(ALIAS_OTHER, 0, 1); A(ALIAS_OTHER, 1, 2);
      for (int i = 0; i < 3; i++) A(RECOUNT, i, i);
      for (int i = 0; i < 4; i++) A(ENSUREPRIVATE, i);
      A(LINK, 0, 1); A(LINK, 1, 0); A(LINK, 1, 2);
      A(UNLINK, 0); A(UNLINK, 1);
      A(ADOPT_LINK, 0, 0); A(ADOPT_LINK, 1, 1);
      A(DRAIN); A(RELEASE_ALL_DRAIN);
      A(SETSTATUS_EVEN, 0); A(SETSTATUS_ODD, 0); A(SETREF_NULL, 0); A(SETREF_NULL, 1);

      // start states = prefixes of real operations (they are checked like any other history)
      for (uint32 mp = 0; mp <= 2; mp += 2) {
         Start e; e.maxPool = mp; e.name = verif::Fmt("maxPoolSize=%u empty", mp); starts.push_back(e);
         Start s; s.maxPool = mp; s.name = verif::Fmt("maxPoolSize=%u two slabs, r0 released", mp);
         s.prefix.push_back(Find(OBTAIN, 0)); s.prefix.push_back(Find(OBTAIN, 1)); s.prefix.push_back(Find(OBTAIN, 2)); s.prefix.push_back(Find(RESET, 0)); starts.push_back(s);
         Start t; t.maxPool = mp; t.name = verif::Fmt("maxPoolSize=%u heap object shared by r0,r1,c0 and a pooled object in r2", mp);
         t.prefix.push_back(Find(HEAPNEW, 0)); t.prefix.push_back(Find(ASSIGN, 1, 0)); t.prefix.push_back(Find(TOCONST, 0)); t.prefix.push_back(Find(OBTAIN, 2)); starts.push_back(t);
         Start u; u.maxPool = mp; u.name = verif::Fmt("maxPoolSize=%u chain r0->pooled A -link-> pooled B -link-> heap C", mp);
         u.prefix.push_back(Find(OBTAIN, 0)); u.prefix.push_back(Find(OBTAIN, 1)); u.prefix.push_back(Find(HEAPNEW, 2)); u.prefix.push_back(Find(LINK, 1, 2)); u.prefix.push_back(Find(LINK, 0, 1));
         u.prefix.push_back(Find(RESET, 1)); u.prefix.push_back(Find(RESET, 2)); starts.push_back(u);
      }
   }
   int NumStarts() const { return (int)starts.size(); }
   std::string StartName(int s) const { return starts[s].name; }
   int NumOps() const { return (int)ops.size(); }
   std::string OpName(int i) const { return names[i]; }
   typedef ::World World;

   void Init(World & w, int s) const
   {
      w.pool = new Pool(starts[s].maxPool);            // the constructor creates the per-type static default objects
      g_default = &w.pool->GetDefaultObject();
      g_logN = 0; g_logOverflow = false; g_poison = 0; g_dirtyCloneTarget = 0; g_unexpectedCopies = 0; g_cloneId = 0;
      w.storageBase = g_liveStorage;                   // baseline after warm-up
      for (size_t i = 0; i < starts[s].prefix.size(); i++) {
         std::string msg, key; int st = Apply(w, starts[s].prefix[i], msg, key);
         // a start-state prefix that fails is a failing history like any other: it is reported by the first operation applied to this start state
         if (st != seqx::SEQX_OK) { w.initFail = verif::Fmt("[while building the start state, step %d] ", (int)i + 1) + (st == seqx::SEQX_VIOLATION ? msg : "operation not enabled: " + OpName(starts[s].prefix[i])); w.initFailKey = (st == seqx::SEQX_VIOLATION) ? key : "infra"; break; }
      }
   }

   // ---- state of the pool read through its private members: invariants + layout string
   bool PoolWalk(const World & w, const RefModel & m, std::string * layout, std::string & msg, int * numSlabs = NULL, int * numFreeSlabs = NULL) const
   {
      const Pool & p = *w.pool;
      std::map<const Obj *, int> pooledLive;   // address -> model object  (ordered map of pointers is only used for lookup, never iterated)
      for (size_t o = 0; o < m.objs.size(); o++) if (m.objs[o].alive && m.objs[o].pooled) pooledLive[m.objs[o].addr] = (int)o;
      std::vector<int> rank; if (layout) Ranks(m, rank);
      uint32 freeTotal = 0; size_t inUseFound = 0; int ns = 0, nfs = 0;
      const Pool::ObjectSlab * prev = NULL;
      for (const Pool::ObjectSlab * s = p._firstSlab; s; prev = s, s = s->_data._next) {
         if (++ns > 64) { msg = "slab list longer than 64 (cycle?)"; return false; }
         if (s->_data._prev != prev) { msg = "slab prev-pointer does not match list order"; return false; }
         if (s->_data._pool != &p) { msg = "slab pool-pointer wrong"; return false; }
         int freePos[2] = { -1, -1 }; int nfree = 0;
         for (uint16 i = s->_data._firstFreeNodeIndex; i != (uint16)Pool::INVALID_NODE_INDEX; i = s->_nodes[i]._nextIndex) {
            if (i >= 2) { msg = "free-list index out of range"; return false; }
            if (freePos[i] >= 0 || nfree >= 2) { msg = "free list of a slab has a cycle"; return false; }
            freePos[i] = nfree++;
         }
         if (s->_data._numNodesInUse != 2 - nfree) { msg = verif::Fmt("slab says %u nodes in use but its free list has %d of 2 nodes", (unsigned)s->_data._numNodesInUse, nfree); return false; }
         if (nfree == 2) nfs++;
         if (layout) *layout += "[";
         for (int i = 0; i < 2; i++) {
            const Pool::ObjectNode & n = s->_nodes[i]; const Obj & o = n._object;
            if (n._arrayIndex != i) { msg = "node array index wrong"; return false; }
            if (o.magic != MAGIC_LIVE) { msg = "slab node holds a destroyed object"; return false; }
            if (freePos[i] >= 0) {
               if (o.lifeId != 0 || o.payload != 0 || o.link() != NULL || o.GetRefCount() != 0 || o.GetManager() != NULL)
                  { msg = verif::Fmt("a free pool node is not in default state (lifeId=%d payload=%d link=%s refcount=%u manager=%s)", o.lifeId, o.payload, o.link() ? "set" : "null", o.GetRefCount(), o.GetManager() ? "set" : "null"); return false; }
               if (layout) *layout += verif::Fmt("f%d", freePos[i]);
            } else {
               std::map<const Obj *, int>::const_iterator it = pooledLive.find(&o);
               if (it == pooledLive.end()) { msg = verif::Fmt("a pool node is marked in use but no live pooled object of the reference lives there (lifeId=%d): lost/leaked node", o.lifeId); return false; }
               inUseFound++;
               if (layout) *layout += verif::Fmt("o%d", rank[it->second]);
            }
            if (layout) *layout += ",";
         }
         if (layout) *layout += "]";
         freeTotal += (uint32)nfree;
      }
      if (p._lastSlab != prev) { msg = "_lastSlab is not the last slab of the list"; return false; }
      if (inUseFound != pooledLive.size()) { msg = verif::Fmt("%u live pooled objects in the reference but %u in-use pool nodes: an object in use is marked free", (unsigned)pooledLive.size(), (unsigned)inUseFound); return false; }
      if (p._curPoolSize != freeTotal) { msg = verif::Fmt("_curPoolSize=%u but the slabs hold %u free nodes", p._curPoolSize, freeTotal); return false; }
      if (p.GetNumAllocatedItemSlots() != (uint32)(2 * ns)) { msg = "GetNumAllocatedItemSlots() != 2*slabs"; return false; }
      if (layout) *layout += verif::Fmt("cur%u max%u", p._curPoolSize, p._maxPoolSize);
      if (numSlabs) *numSlabs = ns; if (numFreeSlabs) *numFreeSlabs = nfs;
      return true;
   }

   // rank of first appearance: variables in order, then along links, then anything else (nothing, by the domain rule)
   static void Ranks(const RefModel & m, std::vector<int> & rank)
   {
      rank.assign(m.objs.size(), -1); int next = 0; std::vector<int> order;
      for (int i = 0; i < NVARS; i++) { int o = m.v[i].obj; if (o >= 0 && rank[o] < 0) { rank[o] = next++; order.push_back(o); } }
      for (size_t k = 0; k < order.size(); k++) { int l = m.objs[order[k]].link; if (l >= 0 && rank[l] < 0) { rank[l] = next++; order.push_back(l); } }
      for (size_t o = 0; o < m.objs.size(); o++) if (m.objs[o].alive && rank[o] < 0) rank[o] = next++;
   }

   bool CheckAll(World & w, std::string & msg, std::string & key) const
   {
      const RefModel & m = w.m;
      // 1. releases of this operation: exactly the reference's, in its order, each once, by the right route
      {
         std::vector<int> got; std::vector<char> gotKind;
         for (int i = 0; i < g_logN; i++) {
            const Ev & e = g_log[i];
            if (e.kind == 'R' && e.id == 0) { msg = "the pool reset (recycled) a node that holds no live object: released twice"; key = "double-release"; return false; }
            if ((e.kind == 'R' || e.kind == 'D') && e.id != 0) { got.push_back(e.id); gotKind.push_back(e.kind); }
         }
         std::string gs, es; for (size_t i = 0; i < got.size(); i++) gs += verif::Fmt("%c#%d ", gotKind[i], got[i]);
         for (size_t i = 0; i < m.deaths.size(); i++) es += verif::Fmt("%c#%d ", m.objs[m.deaths[i]].pooled ? 'R' : 'D', m.objs[m.deaths[i]].id);
         if (gs != es) {
            msg = "objects released by this operation (R=recycled to pool, D=deleted): implementation [" + gs + "] reference [" + es + "]";
            key = (got.size() > m.deaths.size()) ? "early-release" : (got.size() < m.deaths.size()) ? "missing-release" : "release-order";
            return false;
         }
         if (g_logOverflow) { msg = "event log overflow"; key = "infra"; return false; }
      }
      if (g_poison) { msg = "a destroyed object was accessed"; key = "poison"; return false; }
      if (g_dirtyCloneTarget) { msg = "object obtained from the pool for a clone was not in default state"; key = "obtain-state"; return false; }
      if (g_unexpectedCopies) { msg = "an object was copied although no operation asked for it"; key = "unexpected-copy"; return false; }
      // 2. every variable: pointer, mode, status, privacy
      for (int i = 0; i < NVARS; i++) {
         const ConstRef<Obj> & x = w.V(i); const MVar & mv = m.v[i];
         const Obj * want = (mv.obj >= 0) ? m.objs[mv.obj].addr : NULL;
         if (x() != want) { msg = verif::Fmt("variable %d points to %s, reference says %s", i, x() ? (x() == want ? "?" : "another/unknown object") : "NULL", want ? verif::Fmt("object #%d", m.objs[mv.obj].id).c_str() : "NULL"); key = "ref-target"; return false; }
         if (x.IsRefCounting() != (mv.obj >= 0 && mv.counting)) { msg = verif::Fmt("variable %d IsRefCounting()=%d, reference %d", i, (int)x.IsRefCounting(), (int)(mv.obj >= 0 && mv.counting)); key = "ref-mode"; return false; }
         if (x.IsValid() != (want != NULL) || x.IsNull() == (want != NULL)) { msg = "IsValid/IsNull wrong"; key = "ref-target"; return false; }
         const status_t st = x.GetStatus();
         if (want) { if (!st.IsOK()) { msg = "GetStatus() of a valid ref is an error"; key = "status"; return false; } }
         else if (mv.err != E_UNKNOWN) {
            const char * e = (mv.err == E_EVEN) ? g_errEven : (mv.err == E_ODD) ? g_errOdd : B_NULL_REF();
            if (st.IsOK() || strcmp(st(), e) != 0) { msg = verif::Fmt("variable %d GetStatus()=\"%s\", reference \"%s\"", i, st(), e); key = "status"; return false; }
         }
         const bool priv = (mv.obj < 0) || (mv.counting && m.objs[mv.obj].count == 1);
         if (x.IsRefPrivate() != priv) { msg = verif::Fmt("variable %d IsRefPrivate()=%d, reference %d", i, (int)x.IsRefPrivate(), (int)priv); key = "IsRefPrivate"; return false; }
      }
      // 3. every live object: still itself (never recycled/destroyed while referenced), count, manager, link
      for (size_t o = 0; o < m.objs.size(); o++) {
         const MObj & mo = m.objs[o]; if (!mo.alive) continue;
         const Obj * p = mo.addr;
         if (p->magic != MAGIC_LIVE) { msg = verif::Fmt("object #%d was destroyed while the reference still holds %d reference(s)", mo.id, mo.count); key = "early-release"; return false; }
         if (p->lifeId != mo.id || p->payload != mo.payload) { msg = verif::Fmt("object #%d lost its identity/content (lifeId=%d payload=%d): recycled while still referenced", mo.id, p->lifeId, p->payload); key = "early-release"; return false; }
         if ((int)p->GetRefCount() != mo.count) { msg = verif::Fmt("object #%d GetRefCount()=%u, reference %d", mo.id, p->GetRefCount(), mo.count); key = "refcount"; return false; }
         if (p->GetManager() != (mo.pooled ? (AbstractObjectManager *)w.pool : NULL)) { msg = verif::Fmt("object #%d manager pointer wrong", mo.id); key = "manager"; return false; }
         const Obj * wl = (mo.link >= 0) ? m.objs[mo.link].addr : NULL;
         if (p->link() != wl || (wl && !p->link.IsRefCounting())) { msg = verif::Fmt("object #%d link wrong", mo.id); key = "ref-target"; return false; }
      }
      // 4. pool: its own sanity check, then slab list / free lists / _curPoolSize / in-use nodes == live pooled objects
      w.pool->PerformSanityCheck();
      int ns = 0; std::string pm;
      if (!PoolWalk(w, m, NULL, pm, &ns)) { msg = "pool bookkeeping: " + pm; key = "pool-accounting"; return false; }
      // 5. storage accounting: instances alive == 2 per slab + live heap objects
      long heapLive = 0; for (size_t o = 0; o < m.objs.size(); o++) if (m.objs[o].alive && !m.objs[o].pooled) heapLive++;
      const long live = g_liveStorage - w.storageBase;
      if (live != 2 * ns + heapLive) { msg = verif::Fmt("%ld Obj instances exist, expected %d (2 per slab) + %ld live heap objects: %s", live, 2 * ns, heapLive, live > 2 * ns + heapLive ? "leak" : "destroyed too many"); key = (live > 2 * ns + heapLive) ? "leak" : "early-release"; return false; }
      return true;
   }

   // applies op to the reference only; returns false when the op is not enabled.  newObj = index of the object the op creates (or -1)
   bool Step(RefModel & m, const Op & o, int newId, int variant, int & newObj) const
   {
      newObj = -1; m.deaths.clear();
      MVar * v = m.v;
      switch (o.k) {
      case OBTAIN:  newObj = m.New(true, newId);  m.Assign(v[o.a], newObj, true, 0); return true;
      case HEAPNEW: newObj = m.New(false, newId); m.Assign(v[o.a], newObj, true, 0); return true;
      case COPYTEMP: return true;
      case ASSIGN: m.Assign(v[o.a], v[o.b].obj, v[o.b].counting, v[o.b].err); return true;
      case SELFASSIGN: case SELFMOVE: return true;
      case RESET: m.Drop(v[o.a]); return true;
      case SWAP: std::swap(v[o.a], v[o.b]); return true;
      case MOVE: if (variant == 0) std::swap(v[o.a], v[o.b]); else { MVar src = v[o.b]; v[o.b] = MVar(); MVar old = v[o.a]; v[o.a] = src; m.Drop(old); } return true;
      case TOCONST: m.Assign(v[3], v[o.a].obj, v[o.a].counting, v[o.a].err); return true;
      case FROMCONST: {   // the function returns a new Ref (a copy of c0 in c0's mode) which then REPLACES r_i: r_i's old reference is dropped like any other
         MVar tmp; m.Assign(tmp, v[3].obj, v[3].counting, v[3].err); std::swap(v[o.a], tmp); m.Drop(tmp); return true; }
      case CONST_RESET: m.Drop(v[3]); return true;
      case ALIAS: if (v[o.a].obj < 0 || !v[o.a].counting) return false; m.Assign(v[o.a], v[o.a].obj, false, 0); return true;
      case ALIAS_OTHER: if (v[o.b].obj < 0 || v[o.b].obj == v[o.a].obj) return false; m.Assign(v[o.a], v[o.b].obj, false, 0); return true;
      case RECOUNT: if (v[o.a].obj < 0 || v[o.a].counting) return false; m.Assign(v[o.a], v[o.a].obj, true, 0); return true;
      case ENSUREPRIVATE: {
         MVar & x = v[o.a];
         if (x.obj < 0 || (x.counting && m.objs[x.obj].count == 1)) return true;   // already private: no-op
         const MObj src = m.objs[x.obj];
         newObj = m.New(src.pooled, newId); m.objs[newObj].payload = src.payload;
         if (src.link >= 0) { m.objs[newObj].link = src.link; m.Inc(src.link); }
         m.Assign(x, newObj, true, 0); return true; }
      case LINK: {
         const int h = v[o.a].obj, t = v[o.b].obj;
         if (h < 0 || t < 0 || !v[o.b].counting || h == t || m.Reaches(t, h)) return false;   // no cycles (a cycle is a leak by design)
         m.AssignLink(h, t); return true; }
      case UNLINK: { const int h = v[o.a].obj; if (h < 0 || m.objs[h].link < 0) return false; int old = m.objs[h].link; m.objs[h].link = -1; m.Dec(old); return true; }
      case ADOPT_LINK: { const int h = v[o.a].obj; if (h < 0 || m.objs[h].link < 0) return false; m.Assign(v[o.a], m.objs[h].link, true, 0); return true; }
      case DRAIN: return true;
      case RELEASE_ALL_DRAIN: for (int i = 0; i < NVARS; i++) m.Drop(v[i]); return true;
      case SETSTATUS_EVEN: m.Drop(v[o.a]); v[o.a].err = E_EVEN; return true;
      case SETSTATUS_ODD:  m.Drop(v[o.a]); v[o.a].err = E_ODD; return true;
      case SETREF_NULL:
         if (v[o.a].obj >= 0) m.Drop(v[o.a]);
         else if (v[o.a].err == E_EVEN) v[o.a].err = E_UNKNOWN;   // observed, not part of C10: SetRef(NULL) on a null Ref that carries an even-address error string alters the string (see main)
         return true;
      default: return false;
      }
   }

   int Apply(World & w, int opi, std::string & msg, std::string & key) const
   {
      const Op & o = ops[opi]; const std::string kk = KindKey[o.k];
#define FAIL(k, text) do { msg = OpName(opi) + ": " + (text); key = std::string(k) + ":" + kk; w.broken = true; return seqx::SEQX_VIOLATION; } while (0)
      if (!w.initFail.empty()) { msg = w.initFail; key = w.initFailKey; w.broken = true; return (key == "infra") ? -1 : seqx::SEQX_VIOLATION; }
      RefModel m2 = w.m; int newObj = -1;
      if (!Step(m2, o, w.nextId, 0, newObj)) return seqx::SEQX_DISABLED;
      if (!m2.InDomain(maxLive)) return seqx::SEQX_DISABLED;
      bool probeFirst = false;
      if (o.k == ADOPT_LINK && !g_inProbe && !g_hazardSurvived) {   // would the new referent die if the old reference were dropped BEFORE the new one is taken?
         RefModel m3 = w.m; const int target = m3.objs[m3.v[o.a].obj].link; m3.Drop(m3.v[o.a]); probeFirst = !m3.objs[target].alive;
      }
      if (probeFirst) {
         // On the pinned tree this operation then releases the object it is about to reference (a heap object is deleted, a pooled one may lose
         // its whole slab: use-after-free, ASan kills the process): run it first in a forked child, so that the exploring worker survives and
         // the exploration stays complete.
         int pfd[2]; if (pipe(pfd) != 0) { perror("pipe"); exit(3); }
         fflush(stdout); fflush(stderr);
         const pid_t pid = fork(); if (pid < 0) { perror("fork"); exit(3); }
         if (pid == 0) {
            close(pfd[0]); g_inProbe = true;
            if (!g_keepStderr) { int dn = open("/dev/null", O_WRONLY); if (dn >= 0) dup2(dn, 2); }
            std::string cm, ck; const int st = Apply(w, opi, cm, ck);
            const std::string out = verif::Fmt("%d\n", st) + ck + "\n" + cm;
            if (write(pfd[1], out.data(), out.size()) < 0) {}
            _exit(0);
         }
         close(pfd[1]); std::string got; char buf[4096]; ssize_t n; while ((n = read(pfd[0], buf, sizeof(buf))) > 0) got.append(buf, (size_t)n); close(pfd[0]);
         int st = 0; waitpid(pid, &st, 0);
         if (!(WIFEXITED(st) && WEXITSTATUS(st) == 0)) {
            const std::string what = WIFSIGNALED(st) ? verif::Fmt("sig%d", WTERMSIG(st)) : verif::Fmt("exit%d", WEXITSTATUS(st));
            FAIL("fatal:" + what, "process death (" + what + "; exit87 = AddressSanitizer report, here: the Ref increments the count of an object that the same assignment has just deleted)");
         }
         const size_t a = got.find('\n'), b = (a == std::string::npos) ? a : got.find('\n', a + 1);
         if (b == std::string::npos) { msg = "probe child returned garbage"; key = "infra"; return -1; }
         if (atoi(got.c_str()) != seqx::SEQX_OK) { key = got.substr(a + 1, b - a - 1); msg = got.substr(b + 1); w.broken = true; return atoi(got.c_str()); }
         g_hazardSurvived = true;   // this tree handles the situation: from now on this process executes it directly (a crash would still be caught and attributed by the engine)
      }
      g_logN = 0; g_logOverflow = false; g_cloneId = 0;
      const RefModel & m = w.m;   // state before the op
      std::string res;
      switch (o.k) {
      case OBTAIN: {
         Obj * p = w.pool->ObtainObject();
         if (p == NULL) FAIL("obtain-state", "ObtainObject() returned NULL");
         for (size_t i = 0; i < m.objs.size(); i++) if (m.objs[i].alive && m.objs[i].addr == p) FAIL("double-handout", verif::Fmt("the pool handed out the storage of object #%d, which is still in use", m.objs[i].id));
         if (p->magic != MAGIC_LIVE) FAIL("obtain-state", "the pool handed out a destroyed object");
         if (p->lifeId != 0 || p->payload != 0 || p->link() != NULL || p->GetRefCount() != 0) FAIL("obtain-state", verif::Fmt("object obtained from the pool is not in default state (lifeId=%d payload=%d link=%s refcount=%u)", p->lifeId, p->payload, p->link() ? "set" : "null", p->GetRefCount()));
         if (p->GetManager() != w.pool) FAIL("manager", "obtained object's manager is not the pool");
         p->lifeId = m2.objs[newObj].id; p->payload = m2.objs[newObj].payload; m2.objs[newObj].addr = p;
         w.r[o.a] = Ref<Obj>(p);
         break; }
      case HEAPNEW: { Obj * p = new Obj; p->lifeId = m2.objs[newObj].id; p->payload = m2.objs[newObj].payload; m2.objs[newObj].addr = p; w.r[o.a].SetRef(p); break; }
      case COPYTEMP:
         for (int i = 0; i < NVARS; i++) {
            const MVar & mv = m.v[i]; const int want = (mv.obj >= 0) ? m.objs[mv.obj].count : 0;
            if (i < 3) {
               Ref<Obj> t(w.r[i]); ConstRef<Obj> ct(t);
               if (t() != w.r[i]() || ct() != t() || t.IsRefCounting() != w.r[i].IsRefCounting() || ct.IsRefCounting() != t.IsRefCounting()) FAIL("ref-target", "copy differs from original");
               if (t() && (int)t()->GetRefCount() != want + (mv.counting ? 2 : 0)) FAIL("refcount", verif::Fmt("with two extra copies of r%d alive GetRefCount()=%u, reference %d", i, t()->GetRefCount(), want + (mv.counting ? 2 : 0)));
               Ref<Obj> mvd(std::move(t));   // move construction: no change of count
               if (mvd() != w.r[i]() || (mvd() && (int)mvd()->GetRefCount() != want + (mv.counting ? 2 : 0))) FAIL("refcount", "move-construction changed target or count");
            } else {
               ConstRef<Obj> ct(w.c0); if (ct() != w.c0() || ct.IsRefCounting() != w.c0.IsRefCounting()) FAIL("ref-target", "copy differs from original");
               if (ct() && (int)ct()->GetRefCount() != want + (mv.counting ? 1 : 0)) FAIL("refcount", "count with an extra copy of c0 wrong");
               ConstRef<Obj> viaAdd = AddConstToRef(w.r[0]); if (viaAdd() != w.r[0]() || viaAdd.IsRefCounting() != w.r[0].IsRefCounting()) FAIL("ref-target", "AddConstToRef differs from original");
            }
         }
         break;
      case ASSIGN: w.r[o.a] = w.r[o.b]; break;
      case SELFASSIGN: { Ref<Obj> & alias = w.r[o.a]; w.r[o.a] = alias; break; }
      case SELFMOVE: { Ref<Obj> & alias = w.r[o.a]; w.r[o.a] = std::move(alias); break; }
      case RESET: w.r[o.a].Reset(); break;
      case SWAP: w.r[o.a].SwapContents(w.r[o.b]); break;
      case MOVE: {
         const Obj * oldDst = w.r[o.a](); const bool oldDstC = w.r[o.a].IsRefCounting();
         w.r[o.a] = std::move(w.r[o.b]);
         // the moved-from Ref is "valid but unspecified": it may keep the destination's old state (swap) or be null
         if (w.r[o.b]() == oldDst && w.r[o.b].IsRefCounting() == oldDstC) { /* swap variant: already in m2 */ }
         else if (w.r[o.b]() == NULL) { m2 = w.m; Step(m2, o, w.nextId, 1, newObj); }
         else FAIL("ref-target", "moved-from Ref holds an unrelated object");
         if (m2.v[o.b].obj < 0) m2.v[o.b].err = E_UNKNOWN;
         break; }
      case TOCONST: w.c0 = w.r[o.a]; break;
      case FROMCONST: w.r[o.a] = CastAwayConstFromRef(w.c0); break;
      case CONST_RESET: w.c0.Reset(); break;
      case ALIAS: w.r[o.a].SetRef(w.r[o.a](), false); break;
      case ALIAS_OTHER: w.r[o.a].SetRef(w.r[o.b](), false); break;
      case RECOUNT: w.r[o.a].SetRef(w.r[o.a](), true); break;
      case ENSUREPRIVATE: {
         g_cloneId = (newObj >= 0) ? m2.objs[newObj].id : 0;
         const status_t st = w.V(o.a).EnsureRefIsPrivate();
         if (st.IsError()) FAIL("result", "EnsureRefIsPrivate failed");
         if (g_cloneId != 0) FAIL("result", "EnsureRefIsPrivate did not clone a shared object");
         if (newObj >= 0) {
            Obj * p = const_cast<Obj *>(w.V(o.a)());
            if (p == NULL) FAIL("ref-target", "null after EnsureRefIsPrivate");
            for (size_t i = 0; i < m.objs.size(); i++) if (m.objs[i].alive && m.objs[i].addr == p) FAIL("double-handout", verif::Fmt("the clone lives in the storage of object #%d, which is still in use", m.objs[i].id));
            m2.objs[newObj].addr = p;
         }
         break; }
      case LINK: w.r[o.a]()->link = w.r[o.b]; break;
      case UNLINK: w.r[o.a]()->link.Reset(); break;
      case ADOPT_LINK: w.r[o.a] = w.r[o.a]()->link; break;
      case DRAIN: case RELEASE_ALL_DRAIN: {
         if (o.k == RELEASE_ALL_DRAIN) { for (int i = 0; i < 3; i++) w.r[i].Reset(); w.c0.Reset(); }
         // slab bookkeeping before the drain is checked against the state the reference is about to adopt
         int ns = 0, nfs = 0; std::string pm;
         if (!PoolWalk(w, m2, NULL, pm, &ns, &nfs)) FAIL("pool-accounting", "before Drain(): " + pm);
         uint32 n = 12345; w.pool->Drain(&n);
         if (n != (uint32)(2 * nfs)) FAIL("pool-accounting", verif::Fmt("Drain() reported %u objects destroyed, %d unused slabs of 2 existed", n, nfs));
         int ns2 = 0, nfs2 = 0;
         if (!PoolWalk(w, m2, NULL, pm, &ns2, &nfs2)) FAIL("pool-accounting", "after Drain(): " + pm);
         if (nfs2 != 0 || ns2 != ns - nfs) FAIL("pool-accounting", verif::Fmt("after Drain() %d slabs remain (%d unused); before: %d slabs, %d unused", ns2, nfs2, ns, nfs));
         if (o.k == RELEASE_ALL_DRAIN) {
            if (ns2 != 0 || w.pool->_firstSlab != NULL || w.pool->_lastSlab != NULL || w.pool->_curPoolSize != 0) FAIL("pool-accounting", verif::Fmt("everything released and drained but %d slab(s) remain, _curPoolSize=%u", ns2, w.pool->_curPoolSize));
            if (g_liveStorage != w.storageBase) FAIL("leak", verif::Fmt("everything released and drained but %ld Obj instances still exist", g_liveStorage - w.storageBase));
            if (w.pool->FlushCachedObjects() != 0) FAIL("pool-accounting", "FlushCachedObjects on an empty pool reported objects");
         }
         res = verif::Fmt("%u", n);
         break; }
      case SETSTATUS_EVEN: w.r[o.a].SetStatus(status_t(g_errEven)); break;
      case SETSTATUS_ODD: w.r[o.a].SetStatus(status_t(g_errOdd)); break;
      case SETREF_NULL: w.r[o.a].SetRef(NULL); break;
      default: break;
      }
#undef FAIL
      w.m = m2; if (newObj >= 0) w.nextId++;
      w.last = res;
      if (!CheckAll(w, msg, key)) { msg = OpName(opi) + ": " + msg; key = key + ":" + kk; w.broken = true; return seqx::SEQX_VIOLATION; }
      return seqx::SEQX_OK;
   }

   // Canonical form.  Futures depend on: which variable refers to which object in which mode (objects named by rank of first appearance;
   // lifetime ids and addresses are ranked away), the status class of null refs, per object (pooled/heap, counting references, link),
   // and the complete pool layout (slab list order, per node free-list position or occupant, _curPoolSize, max size).
   void Canon(const World & w, std::string & out) const
   {
      const RefModel & m = w.m; std::vector<int> rank; Ranks(m, rank);
      for (int i = 0; i < NVARS; i++) { const MVar & x = m.v[i]; if (x.obj >= 0) out += verif::Fmt("%d%c|", rank[x.obj], x.counting ? 'c' : 'a'); else out += verif::Fmt("n%d|", x.err); }
      std::vector<int> byRank(m.objs.size(), -1); for (size_t o = 0; o < m.objs.size(); o++) if (m.objs[o].alive) byRank[rank[o]] = (int)o;
      for (size_t r = 0; r < byRank.size() && byRank[r] >= 0; r++) { const MObj & mo = m.objs[byRank[r]]; out += verif::Fmt("%c%d>%d;", mo.pooled ? 'P' : 'H', mo.count, mo.link >= 0 ? rank[mo.link] : -1); }
      if (!w.initFail.empty()) { out += "INITFAIL"; return; }
      std::string pm; if (!PoolWalk(w, m, &out, pm)) out += "BROKEN:" + pm;
   }
   void Outcome(const World & w, std::string & out) const
   {
      const RefModel & m = w.m; out = w.last + "/";
      for (size_t i = 0; i < m.deaths.size(); i++) out += m.objs[m.deaths[i]].pooled ? 'R' : 'D';
      out += verif::Fmt("/%d/", m.NumAlive()); for (int i = 0; i < NVARS; i++) out += (m.v[i].obj < 0) ? 'n' : (m.v[i].counting ? 'c' : 'a');
      for (size_t o = 0; o < m.objs.size(); o++) if (m.objs[o].alive) out += verif::Fmt("%d", m.objs[o].count);
   }
};

int main(int argc, char ** argv)
{
   verif::Args args; args.Parse(argc, argv);
   verif::Result res; res.harness = "C10_refcount_seq";
   int maxLive = args.Thorough() ? 4 : 3; if (args.kv.count("maxlive")) maxLive = atoi(args.kv["maxlive"].c_str());
   RefCountModel model(maxLive);
   seqx::Explorer<RefCountModel> ex(model, args, res, "refcount-seq");
   if (!args.replay.empty()) { g_keepStderr = true; verif::ReplayDoc d; if (!d.Load(args.replay)) { fprintf(stderr, "cannot read %s\n", args.replay.c_str()); return 3; } return ex.ReplayFile(d); }
   ex.SetDeadline(args.t0 + args.deadline * 0.9);
   int depth = args.Thorough() ? 6 : 5;
   if (args.kv.count("depth")) depth = atoi(args.kv["depth"].c_str());
   seqx::Stats S = ex.Run(depth);
   res.parts.back().rule = verif::Fmt("every sequence of <=%d operations from a %d-operation alphabet (obtain from pool / new on heap into r_i, copy- and move-construct temporaries, r_i=r_j, self-assign, self-move, Reset, SwapContents, move-assign, Ref->ConstRef, CastAwayConstFromRef, "
      "SetRef(item,false) on the same and on another item and back to counting, EnsureRefIsPrivate on all four refs, assigning/resetting a Ref held INSIDE an object, r_i=r_i()->link, SetStatus with even/odd error addresses, SetRef(NULL), Drain, release-all+Drain) "
      "applied to 3 real Ref<Obj> + 1 ConstRef<Obj> over a real ObjectPool<Obj> with 2 objects per slab and heap objects, at most %d logical objects alive after an operation, from %d start states (max pool size 0 and 2 x {empty; two slabs with a hole; shared heap object + pooled object; "
      "3-object link chain held by one Ref}); states deduplicated on (variable -> object rank and counting mode, status class of null refs, per object pooled/heap + count + link, slab list with per-node occupant or free-list position, _curPoolSize, max size); "
      "domain: histories that leave a non-counting alias dangling, leak an object through SetRef(item,false), or build a reference cycle are not generated", depth, model.NumOps(), maxLive, model.NumStarts());
   // Observed, outside C10 (object lifetimes are not affected): SetRef(NULL) on a null Ref carrying an error status whose string has an even address.
   {
      std::vector<verif::ParRecord> recs;
      verif::ParMap(1, 1, [&](size_t, std::string & rec) { Ref<Obj> r; r.SetStatus(status_t(g_errEven)); r.SetRef(NULL); rec = r.GetStatus()(); }, recs);
      if (recs.size() == 1 && recs[0].data != g_errEven)
         res.observations.push_back("Ref::SetRef(NULL) on a null Ref that carries an error status whose string lies at an even address changes the status: \"" + std::string(g_errEven) + "\" becomes \"" + recs[0].data + "\" (SetRef's same-item branch sets the ref-counting tag bit, which GetStatus() then adds to the string pointer); object lifetimes are not affected, status of such refs is not compared after this operation");
   }
   fprintf(stderr, "C10seq: states=%llu transitions=%llu depth=%d exhaustive=%d outcomes=%llu violations=%llu wall=%.1fs\n", (unsigned long long)S.states, (unsigned long long)S.transitions, S.depthCompleted, (int)S.exhaustive, (unsigned long long)S.distinctOutcomes, (unsigned long long)S.violations, verif::NowS() - args.t0);
   return res.Write(args);
}
