// C10 (pool-reset part) -- "An object obtained from a pool is in the same state as a freshly constructed one", for muscle's OWN pooled classes.
// For every pooled class: every history (length <= depth) over a set of the class's public mutators is applied to a never-used object obtained
// from the (emptied) real pool; the object is released through its last Ref; the same storage is obtained again and EVERY public observer and
// private field (read via -fno-access-control; buffer capacities, manager pointer and reference count excluded) is compared with the snapshot
// taken of that very storage before it was first used, with a stack-constructed instance, and (public-API probe) with the behaviour of a
// never-used instance.  For pools whose object is reachable, every free node of every slab is compared with the pool's default object as well
// (covers objects obtained and recycled INSIDE muscle: sub-Messages, Message field arrays, StringMatchers of a StringMatcherQueue).
#include "engines/common/verif.h"
#include "message/Message.cpp"     // in this TU on purpose: gives access to the file-static Message field-array pools
#include "util/ByteBuffer.h"
#include "reflector/StorageReflectSession.h"
#include "reflector/DataNode.h"
#include "regex/StringMatcher.h"
#include "regex/SegmentedStringMatcher.h"
#include "regex/PathMatcher.h"
#include "util/Socket.h"
#include "system/ReaderWriterMutex.h"
#include "system/SetupSystem.h"
#include "system/GlobalMemoryAllocator.h"

using namespace muscle;

// ---------------------------------------------------------------- snapshots
struct Snap {
   std::vector<std::pair<std::string, std::string> > f;
   void A(const std::string & n, const std::string & v) { f.push_back(std::make_pair(n, v)); }
   void A(const std::string & n, const char * v) { A(n, std::string(v ? v : "(null)")); }
   void A(const std::string & n, const String & v) { A(n, std::string(v())); }
   void N(const std::string & n, long long v) { A(n, verif::Fmt("%lld", v)); }
   void B(const std::string & n, bool v) { A(n, std::string(v ? "true" : "false")); }
   std::string Str() const { std::string s; for (size_t i = 0; i < f.size(); i++) s += f[i].first + "=" + f[i].second + ";"; return s; }
};
struct Diff { std::string field, fresh, recycled; };
static void Compare(const Snap & fresh, const Snap & rec, const std::string & prefix, std::vector<Diff> & out)
{
   for (size_t i = 0; i < fresh.f.size() || i < rec.f.size(); i++) {
      Diff d;
      if (i >= fresh.f.size() || i >= rec.f.size() || fresh.f[i].first != rec.f[i].first) { d.field = prefix + "snapshot-shape"; d.fresh = fresh.Str(); d.recycled = rec.Str(); out.push_back(d); return; }
      if (fresh.f[i].second != rec.f[i].second) { d.field = prefix + fresh.f[i].first; d.fresh = fresh.f[i].second; d.recycled = rec.f[i].second; out.push_back(d); }
   }
}
static std::string HexOf(const Flattenable & fl) { const uint32 n = fl.FlattenedSize(); std::vector<uint8> b(n ? n : 1); fl.FlattenToBytes(&b[0], n); return verif::Hex(&b[0], n); }

template <class X, class F> static void ForEachFreeNode(ObjectPool<X> & pool, F f)
{
   typedef typename ObjectPool<X>::ObjectSlab Slab;
   for (Slab * s = pool._firstSlab; s; s = s->_data._next)
      for (uint16 i = s->_data._firstFreeNodeIndex; i != (uint16)ObjectPool<X>::INVALID_NODE_INDEX; i = s->_nodes[i]._nextIndex) f(s->_nodes[i]._object);
}
template <class X> static void RefStateOfFreeNode(const X & o, const std::string & cls, std::vector<Diff> & out)
{
   if (o.GetRefCount() != 0) { Diff d; d.field = "free-node:refcount"; d.fresh = "0"; d.recycled = verif::Fmt("%u", o.GetRefCount()); out.push_back(d); }
   if (o.GetManager() != NULL) { Diff d; d.field = "free-node:manager"; d.fresh = "NULL"; d.recycled = "set"; out.push_back(d); }
}

// heap (non-pooled) Messages used as auxiliary data, so that the Message pool is not involved unless a class under test uses it itself
static MessageRef HeapMsg(uint32 what, int v) { MessageRef m(new Message(what)); (void) m()->AddInt32("v", v); return m; }

// ================================================================ Message (+ the 14 field-array pools of Message.cpp)
template <class X> static void SnapArray(const X & a, Snap & s) { s.N("GetNumItems", a.GetNumItems()); s.N("_data._itemCount", a._data._itemCount); s.B("IsEmpty", a.IsEmpty()); }
template <class X> static void CheckArrayPool(ObjectPool<X> & pool, const char * cls, std::vector<Diff> & out)
{
   Snap def; SnapArray(pool.GetDefaultObject(), def);
   ForEachFreeNode(pool, [&](const X & o) { Snap s; SnapArray(o, s); Compare(def, s, std::string(cls) + ":", out); RefStateOfFreeNode(o, cls, out); });
}
static uint8 g_sampleFlat[512]; static uint32 g_sampleFlatLen = 0;
struct MessageTR {
   typedef Message T;
   static const char * Name() { return "Message"; }
   static bool ObserveOnly() { return false; }
   static bool CtorComparable() { return true; }
   struct Ctx {};
   static Ref<T> Obtain(Ctx &) { return Ref<T>(GetMessagePool()->ObtainObject()); }
   static int NumMut() { return 11; }
   static const char * MutName(int i) { static const char * n[] = { "what=0x1234", "AddInt32 x2", "AddString x2", "AddMessage(pool Messages) x2", "add two items of each of the 11 other field types", "RemoveName(first field)", "RemoveData(first field,0)", "Clear()", "UnflattenFromBytes(sample)", "SwapContents(populated Message)", "Rename(first field)+PrependInt32+SortFieldNames" }; return n[i]; }
   static void Mutate(Ctx &, T & m, int i)
   {
      switch (i) {
      case 0: m.what = 0x1234; break;
      case 1: (void) m.AddInt32("i", 7); (void) m.AddInt32("i", 8); break;
      case 2: (void) m.AddString("s", "hello"); (void) m.AddString("s", "a longer string that does not fit the small-string buffer of muscle::String"); break;
      case 3: { MessageRef sub = GetMessageFromPool(5); (void) sub()->AddInt32("z", 1); (void) sub()->AddInt32("z", 2); (void) m.AddMessage("m", sub); (void) m.AddMessage("m", GetMessageFromPool(6)); break; }
      case 4: {
         for (int k = 0; k < 2; k++) {
            (void) m.AddBool("b", k == 0); (void) m.AddInt8("i8", (int8)k); (void) m.AddInt16("i16", (int16)k); (void) m.AddInt64("i64", k); (void) m.AddFloat("f", 1.5f * k); (void) m.AddDouble("d", 2.5 * k);
            (void) m.AddPoint("pt", Point(1, (float)k)); (void) m.AddRect("rc", Rect(0, 0, 1, (float)k)); (void) m.AddPointer("ptr", &g_sampleFlat[k]); (void) m.AddTag("tag", RefCountableRef(HeapMsg(9, k).GetRefCountableRef()));
            const uint8 raw[3] = { 1, 2, (uint8)k }; (void) m.AddData("raw", B_RAW_TYPE, raw, sizeof(raw));
            (void) m.AddFlat("bb", GetByteBufferFromPool(3, raw));
         }
         break; }
      case 5: { const String * n = m.GetFirstFieldNameString(); if (n) { String c = *n; (void) m.RemoveName(c); } break; }
      case 6: { const String * n = m.GetFirstFieldNameString(); if (n) { String c = *n; (void) m.RemoveData(c, 0); } break; }
      case 7: m.Clear(); break;
      case 8: (void) m.UnflattenFromBytes(g_sampleFlat, g_sampleFlatLen); break;
      case 9: { Message o(77); (void) o.AddInt32("o", 1); (void) o.AddInt32("o", 2); (void) o.AddString("os", "x"); m.SwapContents(o); break; }
      case 10: { const String * n = m.GetFirstFieldNameString(); if (n) { String c = *n; (void) m.Rename(c, "zz"); } (void) m.PrependInt32("aa", 3); m.SortFieldNames(); break; }
      }
   }
   static void Snapshot(const T & m, Snap & s)
   {
      s.N("what", m.what); s.N("_entries._numItems", m._entries._numItems);
      s.N("_entries._iterHeadIdx", m._entries._iterHeadIdx); s.N("_entries._iterTailIdx", m._entries._iterTailIdx);
      s.B("_entries._iterList==NULL", m._entries._iterList == NULL); s.N("_entries._iteratorCount", m._entries._iteratorCount.GetCount()); s.N("_entries._owningThreadIteratorCount", m._entries._owningThreadIteratorCount);
      s.N("GetNumNames", m.GetNumNames()); s.B("HasNames", m.HasNames());
      std::string names; for (MessageFieldNameIterator it(m, B_ANY_TYPE, HTIT_FLAG_NOREGISTER); it.HasData(); it++) names += std::string(it.GetFieldName()()) + ",";
      s.A("field names", names); s.N("FlattenedSize", m.FlattenedSize()); s.A("Flatten", HexOf(m)); s.B("==Message()", m == Message()); s.N("CalculateChecksum", m.CalculateChecksum());
   }
   static void Probe(Ctx &, T & m, Snap & s) { s.B("AddInt32 ok", m.AddInt32("p", 1).IsOK()); s.B("AddString ok", m.AddString("q", "s").IsOK()); s.A("Flatten after adds", HexOf(m)); int32 v = 0; s.B("FindInt32", m.FindInt32("p", v).IsOK() && v == 1); }
   static void FreeNodes(std::vector<Diff> & out)
   {
      Snap def; Snapshot(GetMessagePool()->GetDefaultObject(), def);
      ForEachFreeNode(*GetMessagePool(), [&](const Message & o) { Snap s; Snapshot(o, s); Compare(def, s, "free-node:", out); RefStateOfFreeNode(o, "Message", out); });
#define ARR(X) CheckArrayPool(_pool##X, #X, out)
      ARR(TagDataArray); ARR(PointDataArray); ARR(RectDataArray); ARR(Int8DataArray); ARR(BoolDataArray); ARR(Int16DataArray); ARR(Int32DataArray); ARR(Int64DataArray);
      ARR(FloatDataArray); ARR(DoubleDataArray); ARR(PointerDataArray); ARR(ByteBufferDataArray); ARR(MessageDataArray); ARR(StringDataArray);
#undef ARR
   }
};

// ================================================================ ByteBuffer
struct CountingStrategy : public IMemoryAllocationStrategy {
   virtual void * Malloc(size_t n) { return malloc(n ? n : 1); }
   virtual void * Realloc(void * p, size_t n, size_t, bool) { return realloc(p, n ? n : 1); }
   virtual void Free(void * p, size_t) { free(p); }
};
static CountingStrategy g_strategy;
struct ByteBufferTR {
   typedef ByteBuffer T;
   static const char * Name() { return "ByteBuffer"; }
   static bool ObserveOnly() { return false; }
   static bool CtorComparable() { return true; }
   struct Ctx {};
   static Ref<T> Obtain(Ctx &) { return Ref<T>(GetByteBufferPool()->ObtainObject()); }
   static int NumMut() { return 11; }
   static const char * MutName(int i) { static const char * n[] = { "SetNumBytes(10,false)", "SetBuffer(5,\"hello\")", "AppendBytes(300 bytes)", "Clear(false)", "Clear(true)", "Clear(true)+SetMemoryAllocationStrategy(custom)", "AdoptBuffer(16)", "SwapContents(populated buffer)", "FreeExtraBytes", "assign from another buffer", "ReleaseBuffer()" }; return n[i]; }
   static void Mutate(Ctx &, T & b, int i)
   {
      static const uint8 big[300] = { 9, 8, 7 };
      switch (i) {
      case 0: if (b.SetNumBytes(10, false).IsOK()) memset(b.GetBuffer(), 0x5A, 10); break;
      case 1: (void) b.SetBuffer(5, (const uint8 *)"hello"); break;
      case 2: (void) b.AppendBytes(big, sizeof(big)); break;
      case 3: b.Clear(false); break;
      case 4: b.Clear(true); break;
      case 5: b.Clear(true); b.SetMemoryAllocationStrategy(&g_strategy); break;
      case 6: { IMemoryAllocationStrategy * as = b.GetMemoryAllocationStrategy(); uint8 * p = (uint8 *)(as ? as->Malloc(16) : muscleAlloc(16)); if (p) { memset(p, 3, 16); b.AdoptBuffer(16, p); } break; }
      case 7: { ByteBuffer o(7, (const uint8 *)"seven!!"); b.SwapContents(o); break; }
      case 8: (void) b.FreeExtraBytes(); break;
      case 9: { ByteBuffer o(3, (const uint8 *)"abc"); b = o; break; }
      case 10: { IMemoryAllocationStrategy * as = b.GetMemoryAllocationStrategy(); const uint32 cap = b.GetNumAllocatedBytes(); uint8 * p = b.ReleaseBuffer(); if (as) as->Free(p, cap); else muscleFree(p); break; }
      }
   }
   static void Snapshot(const T & b, Snap & s)
   {
      s.N("_numValidBytes", b._numValidBytes); s.B("_allocStrategy==NULL", b._allocStrategy == NULL);
      s.N("GetNumBytes", b.GetNumBytes()); s.B("GetMemoryAllocationStrategy()==NULL", b.GetMemoryAllocationStrategy() == NULL); s.N("FlattenedSize", b.FlattenedSize());
      s.N("CalculateChecksum", b.CalculateChecksum()); s.N("HashCode", b.HashCode()); s.A("ToHexString", b.ToHexString()); s.B("==ByteBuffer()", b == ByteBuffer());
   }
   static void Probe(Ctx &, T & b, Snap & s) { s.B("AppendBytes ok", b.AppendBytes((const uint8 *)"xyz", 3).IsOK()); s.A("content", b.ToHexString()); s.B("strategy still NULL", b.GetMemoryAllocationStrategy() == NULL); }
   static void FreeNodes(std::vector<Diff> & out)
   {
      Snap def; Snapshot(GetByteBufferPool()->GetDefaultObject(), def);
      ForEachFreeNode(*GetByteBufferPool(), [&](const ByteBuffer & o) { Snap s; Snapshot(o, s); Compare(def, s, "free-node:", out); RefStateOfFreeNode(o, "ByteBuffer", out); });
   }
};

// ================================================================ DataNode (pool is a function-local static of StorageReflectSession::GetNewDataNode: only the public factory reaches it)
struct DataNodeTR {
   typedef DataNode T;
   static const char * Name() { return "DataNode"; }
   static bool ObserveOnly() { return false; }
   static bool CtorComparable() { return false; }   // the factory initialises name and payload
   struct Ctx { ConstMessageRef data, other; Ctx() : data(HeapMsg(1, 1)), other(HeapMsg(2, 2)) {} };
   static Ref<T> Obtain(Ctx & c) { return StorageReflectSession::GetNewDataNode("node", c.data); }
   static int NumMut() { return 11; }
   static const char * MutName(int i) { static const char * n[] = { "InsertOrderedChild(generated name)", "InsertOrderedChild(\"named\")", "PutChild(\"kid\")", "RemoveChild(first child)", "SetData(other)", "SetMaxKnownChildIDHint(17)", "InsertIndexEntryAt(0,first child)", "RemoveIndexEntryAt(0)", "ReorderChild(last child,to end)", "SetNodeName(\"renamed\")", "CalculateChecksum()" }; return n[i]; }
   static String FirstChild(const T & n) { DataNodeRefIterator it = n.GetChildIterator(HTIT_FLAG_NOREGISTER); return it.HasData() ? *it.GetKey() : String(); }
   static void Mutate(Ctx & c, T & n, int i)
   {
      switch (i) {
      case 0: (void) n.InsertOrderedChild(c.data, "", "", NULL, NULL, NULL); break;
      case 1: (void) n.InsertOrderedChild(c.other, "", "named", NULL, NULL, NULL); break;
      case 2: (void) n.PutChild(StorageReflectSession::GetNewDataNode("kid", c.data), NULL, NULL); break;
      case 3: { String k = FirstChild(n); if (k.HasChars()) (void) n.RemoveChild(k, NULL, true, NULL); break; }
      case 4: n.SetData(c.other, NULL); break;
      case 5: n.SetMaxKnownChildIDHint(17); break;
      case 6: { String k = FirstChild(n); if (k.HasChars()) (void) n.InsertIndexEntryAt(0, NULL, k); break; }
      case 7: (void) n.RemoveIndexEntryAt(0, NULL); break;
      case 8: { DataNodeRef last; for (DataNodeRefIterator it = n.GetChildIterator(HTIT_FLAG_NOREGISTER); it.HasData(); it++) last = it.GetValue(); if (last()) (void) n.ReorderChild(last, "", NULL); break; }
      case 9: n.SetNodeName("renamed"); break;
      case 10: (void) n.CalculateChecksum(); break;
      }
   }
   static void Snapshot(const T & n, Snap & s)
   {
      s.B("_parent==NULL", n._parent == NULL); s.B("_data is the payload given to the factory", n._data() != NULL && n._data()->what == 1); s.N("_cachedDataChecksum", n._cachedDataChecksum);
      s.B("_children==NULL", n._children == NULL); s.B("_orderedIndex==NULL", n._orderedIndex == NULL); s.N("_orderedCounter", n._orderedCounter); s.A("_nodeName", n._nodeName);
      s.N("_depth", n._depth); s.N("_maxChildIDHint", n._maxChildIDHint); s.B("_subscribers==NULL", n._subscribers() == NULL);
      s.N("GetNumChildren", n.GetNumChildren()); s.B("HasChildren", n.HasChildren()); s.B("GetIndex()==NULL", n.GetIndex() == NULL); s.A("GetNodeName", n.GetNodeName()); s.A("GetNodePath", n.GetNodePath());
      s.N("GetDepth", n.GetDepth()); s.N("GetMaxKnownChildIDHint", n.GetMaxKnownChildIDHint()); s.N("GetSubscribers().GetNumItems", n.GetSubscribers().GetNumItems()); s.B("GetParent()==NULL", n.GetParent() == NULL);
      s.B("HasChild(I0)", n.HasChild("I0"));
   }
   static void Probe(Ctx & c, T & n, Snap & s)
   {
      DataNodeRef a = n.InsertOrderedChild(c.data, "", "", NULL, NULL, NULL), b = n.InsertOrderedChild(c.data, "", "", NULL, NULL, NULL);
      s.A("InsertOrderedChild-generated-names", std::string(a() ? a()->GetNodeName()() : "(failed)") + "," + (b() ? b()->GetNodeName()() : "(failed)"));
      s.N("index length", n.GetIndex() ? (long long)n.GetIndex()->GetNumItems() : -1); s.N("GetNumChildren", n.GetNumChildren());   // (paths and checksums of the children follow from the names)
   }
   static void FreeNodes(std::vector<Diff> &) {}
};

// ================================================================ StringMatcher
struct StringMatcherTR {
   typedef StringMatcher T;
   static const char * Name() { return "StringMatcher"; }
   static bool ObserveOnly() { return false; }
   static bool CtorComparable() { return true; }
   struct Ctx {};
   static Ref<T> Obtain(Ctx &) { return Ref<T>(GetStringMatcherPool()->ObtainObject()); }
   static int NumMut() { return 11; }
   static const char * MutName(int i) { static const char * n[] = { "SetPattern(\"abc*\")", "SetPattern(\"<3-5,9>\")", "SetPattern(\"~x?\")", "SetPattern(\"`^a.c$\")", "SetPattern(\"a(b\",regex) [invalid]", "SetPattern(\"a,b,c\")", "SetNegate(true)", "Reset()", "SwapContents(matcher \"q*\")", "assign from matcher \"~<1-2>\"", "SetPattern(\"lit\",regex)" }; return n[i]; }
   static void Mutate(Ctx &, T & m, int i)
   {
      switch (i) {
      case 0: (void) m.SetPattern("abc*"); break;
      case 1: (void) m.SetPattern("<3-5,9>"); break;
      case 2: (void) m.SetPattern("~x?"); break;
      case 3: (void) m.SetPattern("`^a.c$"); break;
      case 4: (void) m.SetPattern("a(b", false); break;
      case 5: (void) m.SetPattern("a,b,c"); break;
      case 6: m.SetNegate(true); break;
      case 7: m.Reset(); break;
      case 8: { StringMatcher o("q*"); m.SwapContents(o); break; }
      case 9: { StringMatcher o("~<1-2>"); m = o; break; }
      case 10: (void) m.SetPattern("lit", false); break;
      }
   }
   static void Snapshot(const T & m, Snap & s)
   {
      for (uint32 b = 0; b < T::NUM_STRINGMATCHER_FLAGS; b++) s.B(std::string("_flags.") + T::_stringMatcherFlagLabels[b], m._flags.IsBitSet(b));
      s.A("_pattern", m._pattern); s.N("_ranges.GetNumItems", m._ranges.GetNumItems());
      s.A("GetPattern", m.GetPattern()); s.B("IsPatternUnique", m.IsPatternUnique()); s.B("IsPatternListOfUniqueValues", m.IsPatternListOfUniqueValues()); s.B("IsNegate", m.IsNegate()); s.B("IsSimple", m.IsSimple());
      s.B("Match(abc)", m.Match("abc")); s.B("Match(4)", m.Match("4")); s.B("Match()", m.Match("")); s.A("ToString", m.ToString()); s.N("HashCode", m.HashCode()); s.B("==StringMatcher()", m == StringMatcher());
   }
   static void Probe(Ctx &, T & m, Snap & s) { s.B("SetPattern(a*) ok", m.SetPattern("a*").IsOK()); s.B("Match(abc)", m.Match("abc")); s.B("Match(b)", m.Match("b")); s.A("ToString", m.ToString()); s.B("IsPatternUnique", m.IsPatternUnique()); }
   static void FreeNodes(std::vector<Diff> & out)
   {
      Snap def; Snapshot(GetStringMatcherPool()->GetDefaultObject(), def);
      ForEachFreeNode(*GetStringMatcherPool(), [&](const StringMatcher & o) { Snap s; Snapshot(o, s); Compare(def, s, "free-node:", out); RefStateOfFreeNode(o, "StringMatcher", out); });
   }
};

// ================================================================ SegmentedStringMatcher
struct SegmentedStringMatcherTR {
   typedef SegmentedStringMatcher T;
   static const char * Name() { return "SegmentedStringMatcher"; }
   static bool ObserveOnly() { return false; }
   static bool CtorComparable() { return true; }
   struct Ctx {};
   static Ref<T> Obtain(Ctx &) { return Ref<T>(GetSegmentedStringMatcherPool()->ObtainObject()); }
   static int NumMut() { return 7; }
   static const char * MutName(int i) { static const char * n[] = { "SetPattern(\"a/b*/c\")", "SetPattern(\"~x/y\")", "SetPattern(\"a.b\",sep=\".\")", "SetPattern(\"a/b/c/d\",maxSegments=2)", "SetNegate(true)", "Clear()", "assign from matcher \"p/q\"" }; return n[i]; }
   static void Mutate(Ctx &, T & m, int i)
   {
      switch (i) {
      case 0: (void) m.SetPattern("a/b*/c"); break;
      case 1: (void) m.SetPattern("~x/y"); break;
      case 2: (void) m.SetPattern("a.b", true, "."); break;
      case 3: (void) m.SetPattern("a/b/c/d", true, "/", 2); break;
      case 4: m.SetNegate(true); break;
      case 5: m.Clear(); break;
      case 6: { SegmentedStringMatcher o("p/q"); m = o; break; }
      }
   }
   static void Snapshot(const T & m, Snap & s)
   {
      s.A("_pattern", m._pattern); s.A("_sepChars", m._sepChars); s.B("_negate", m._negate); s.N("_segments.GetNumItems", m._segments.GetNumItems());
      s.A("GetPattern", m.GetPattern()); s.A("GetSeparatorChars", m.GetSeparatorChars()); s.B("IsNegate", m.IsNegate()); s.B("IsPatternUnique", m.IsPatternUnique());
      s.B("Match(a/bb/c)", m.Match("a/bb/c", false)); s.B("Match(a,prefix)", m.Match("a", true)); s.B("Match()", m.Match("", false)); s.A("ToString", m.ToString());
   }
   static void Probe(Ctx &, T & m, Snap & s) { s.B("SetPattern(q/*) ok", m.SetPattern("q/*").IsOK()); s.B("Match(q/r)", m.Match("q/r", false)); s.B("Match(x/r)", m.Match("x/r", false)); s.A("ToString", m.ToString()); }
   static void FreeNodes(std::vector<Diff> & out)
   {
      Snap def; Snapshot(GetSegmentedStringMatcherPool()->GetDefaultObject(), def);
      ForEachFreeNode(*GetSegmentedStringMatcherPool(), [&](const SegmentedStringMatcher & o) { Snap s; Snapshot(o, s); Compare(def, s, "free-node:", out); RefStateOfFreeNode(o, "SegmentedStringMatcher", out); });
      std::vector<Diff> sm; StringMatcherTR::FreeNodes(sm); for (size_t i = 0; i < sm.size(); i++) { sm[i].field = "StringMatcher:" + sm[i].field; out.push_back(sm[i]); }
   }
};

// ================================================================ StringMatcherQueue (the parsed form of a PathMatcher entry); one mutator drives the pool through PathMatcher itself
struct StringMatcherQueueTR {
   typedef StringMatcherQueue T;
   static const char * Name() { return "StringMatcherQueue"; }
   static bool ObserveOnly() { return false; }
   static bool CtorComparable() { return true; }
   struct Ctx {};
   static Ref<T> Obtain(Ctx &) { return Ref<T>(GetStringMatcherQueuePool()->ObtainObject()); }
   static int NumMut() { return 8; }
   static const char * MutName(int i) { static const char * n[] = { "AddTail(pool matcher \"x*\")", "AddTail(null matcher)", "AddHead(pool matcher \"<1-3>\")", "RemoveHead()", "Clear()", "EnsureSize(20)", "ReverseItemOrdering()", "a PathMatcher parses 3 paths and is cleared (pool objects obtained and recycled inside muscle)" }; return n[i]; }
   static void Mutate(Ctx &, T & q, int i)
   {
      Queue<StringMatcherRef> & Q = q.GetStringMatchers();
      switch (i) {
      case 0: (void) Q.AddTail(GetStringMatcherFromPool("x*")); break;
      case 1: (void) Q.AddTail(StringMatcherRef()); break;
      case 2: (void) Q.AddHead(GetStringMatcherFromPool("<1-3>")); break;
      case 3: (void) Q.RemoveHead(); break;
      case 4: Q.Clear(); break;
      case 5: (void) Q.EnsureSize(20); break;
      case 6: Q.ReverseItemOrdering(); break;
      case 7: { PathMatcher pm; (void) pm.PutPathString("a/b*/c", ConstQueryFilterRef()); (void) pm.PutPathString("/x/*/y?", ConstQueryFilterRef()); (void) pm.PutPathString("*", ConstQueryFilterRef()); pm.Clear(); break; }
      }
   }
   static void Snapshot(const T & q, Snap & s) { s.N("_queue.GetNumItems", q._queue.GetNumItems()); s.N("GetStringMatchers().GetNumItems", q.GetStringMatchers().GetNumItems()); s.A("ToString", q.ToString()); }
   static void Probe(Ctx &, T & q, Snap & s) { s.B("AddTail ok", q.GetStringMatchers().AddTail(GetStringMatcherFromPool("y")).IsOK()); s.A("ToString", q.ToString()); }
   static void FreeNodes(std::vector<Diff> & out)
   {
      Snap def; Snapshot(GetStringMatcherQueuePool()->GetDefaultObject(), def);
      ForEachFreeNode(*GetStringMatcherQueuePool(), [&](const StringMatcherQueue & o) { Snap s; Snapshot(o, s); Compare(def, s, "free-node:", out); RefStateOfFreeNode(o, "StringMatcherQueue", out); });
      std::vector<Diff> sm; StringMatcherTR::FreeNodes(sm); for (size_t i = 0; i < sm.size(); i++) { sm[i].field = "StringMatcher:" + sm[i].field; out.push_back(sm[i]); }
   }
};

// ================================================================ Socket (pool is function-local in GetConstSocketRefFromPool)
struct SocketTR {
   typedef Socket T;
   static const char * Name() { return "Socket"; }
   static bool ObserveOnly() { return false; }
   static bool CtorComparable() { return true; }
   struct Ctx { std::vector<int> fds; ~Ctx() { for (size_t i = 0; i < fds.size(); i++) (void) close(fds[i]); } };
   static Ref<T> Obtain(Ctx &) { ConstSocketRef r = GetConstSocketRefFromPool(-1, false, false); Ref<T> ret; ret.SetRef(const_cast<Socket *>(r())); return ret; }
   static int NumMut() { return 4; }
   static const char * MutName(int i) { static const char * n[] = { "SetFileDescriptor(fd,okayToClose)", "SetFileDescriptor(fd,keep open)", "ReleaseFileDescriptor()", "Clear()" }; return n[i]; }
   static void Mutate(Ctx & c, T & s, int i)
   {
      switch (i) {
      case 0: { int fd = open("/dev/null", O_RDONLY); s.SetFileDescriptor(fd, true); break; }
      case 1: { int fd = open("/dev/null", O_RDONLY); c.fds.push_back(fd); s.SetFileDescriptor(fd, false); break; }
      case 2: { const bool mine = s._okayToClose; int fd = s.ReleaseFileDescriptor(); if (fd >= 0 && mine) (void) close(fd); break; }
      case 3: s.Clear(); break;
      }
   }
   static void Snapshot(const T & k, Snap & s) { s.N("_family", k._family); s.N("_fd", k._fd); s.B("_okayToClose", k._okayToClose); s.N("GetFamily", k.GetFamily()); s.N("GetFileDescriptor", k.GetFileDescriptor()); }
   static void Probe(Ctx &, T &, Snap &) {}
   static void FreeNodes(std::vector<Diff> &) {}
};

// ================================================================ ReaderWriterMutex's pooled wait-condition holder (reset is a DELIBERATE no-op: observed, not judged)
typedef ReaderWriterMutex::RefCountableWaitCondition RCWC;
static ObjectPool<RCWC> * g_wcPool = NULL;
struct WaitConditionTR {
   typedef RCWC T;
   static const char * Name() { return "ReaderWriterMutex::RefCountableWaitCondition"; }
   static bool ObserveOnly() { return true; }
   static bool CtorComparable() { return true; }
   struct Ctx {};
   static Ref<T> Obtain(Ctx &) { if (g_wcPool == NULL) g_wcPool = new ObjectPool<RCWC>; return Ref<T>(g_wcPool->ObtainObject()); }
   static int NumMut() { return 3; }
   static const char * MutName(int i) { static const char * n[] = { "Notify()", "Notify(2)", "Wait(already-passed deadline)" }; return n[i]; }
   static void Mutate(Ctx &, T & w, int i) { switch (i) { case 0: (void) w._waitCondition.Notify(); break; case 1: (void) w._waitCondition.Notify(2); break; case 2: (void) w._waitCondition.Wait(0); break; } }
   static void Snapshot(const T & w, Snap & s) { s.N("_waitCondition._pendingNotificationsCount", w._waitCondition._pendingNotificationsCount); }
   static void Probe(Ctx &, T & w, Snap & s) { uint32 n = 0; s.B("Wait(0) finds a notification", w._waitCondition.Wait(0, &n).IsOK()); s.N("notifications", n); }
   static void FreeNodes(std::vector<Diff> &) {}
};

// ---------------------------------------------------------------- one case = one mutator history
struct CaseOut { std::vector<Diff> diffs; bool sameStorage; std::string usedState, recycledState; int fields; CaseOut() : sameStorage(false), fields(0) {} };

static void DecodeCase(size_t idx, int k, std::vector<int> & seq)   // 0 -> [], then all of length 1, 2, ...
{
   seq.clear(); size_t len = 0, block = 1;
   while (idx >= block) { idx -= block; block *= (size_t)k; len++; }
   seq.assign(len, 0); for (size_t i = len; i > 0; i--) { seq[i - 1] = (int)(idx % (size_t)k); idx /= (size_t)k; }
}
static size_t NumCases(int k, int depth) { size_t n = 0, b = 1; for (int d = 0; d <= depth; d++) { n += b; b *= (size_t)k; } return n; }

template <class TR> static void RunCase(const std::vector<int> & seq, CaseOut & out)
{
   static CompleteSetupSystem * css = NULL; if (css == NULL) css = new CompleteSetupSystem;
   typedef typename TR::T T;
   AbstractObjectRecycler::GlobalFlushAllCachedObjects();            // nothing is held: every pool is without slabs now
   Snap probeFresh; ObjectPool<T> * pool = NULL;                     // (the pool is found through the manager pointer of an obtained object: works for function-local pools too)
   { typename TR::Ctx c; { Ref<T> fresh = TR::Obtain(c); if (fresh() == NULL) return; pool = dynamic_cast<ObjectPool<T> *>(fresh()->GetManager()); TR::Probe(c, *fresh(), probeFresh); } }
   AbstractObjectRecycler::GlobalFlushAllCachedObjects();
   if (pool == NULL || pool->_firstSlab != NULL) {
      // the next object would not be a never-used one.  Every reference has been dropped, so a slab can only survive the flush when a recycled object still owns something
      Diff d; d.field = "pool-not-empty-after-releasing-everything"; d.fresh = "no slabs"; d.recycled = pool ? "a slab is still in use" : "object has no ObjectPool manager"; out.diffs.push_back(d); out.sameStorage = true; return;
   }
   typename TR::Ctx ctx;
   Ref<T> a = TR::Obtain(ctx); T * const addr = a(); if (addr == NULL) return;
   Snap fresh; TR::Snapshot(*addr, fresh); out.fields = (int)fresh.f.size();
   if (TR::CtorComparable()) { T local; Snap ctor; TR::Snapshot(local, ctor); Compare(ctor, fresh, "never-used-vs-constructed:", out.diffs); }
   for (size_t i = 0; i < seq.size(); i++) TR::Mutate(ctx, *addr, seq[i]);
   { Snap used; TR::Snapshot(*addr, used); out.usedState = used.Str(); }
   a.Reset();                                                        // last reference gone: back to the pool
   TR::FreeNodes(out.diffs);                                         // everything that sits in a pool now must look like the default object
   std::vector<Ref<T> > held; Ref<T> b;
   for (int tries = 0; tries < 256; tries++) { b = TR::Obtain(ctx); if (b() == addr || b() == NULL) break; held.push_back(b); }
   out.sameStorage = (b() == addr);
   if (!out.sameStorage) return;
   Snap rec; TR::Snapshot(*b(), rec); out.recycledState = rec.Str();
   Compare(fresh, rec, "", out.diffs);
   Snap probeRec; TR::Probe(ctx, *b(), probeRec);
   Compare(probeFresh, probeRec, "probe:", out.diffs);
}

template <class TR> static std::string CaseJson(const verif::Result & res, const std::vector<int> & seq)
{
   std::vector<std::string> names; for (size_t i = 0; i < seq.size(); i++) names.push_back(TR::MutName(seq[i]));
   return "{\"harness\": " + verif::JStr(res.harness) + ", \"part\": " + verif::JStr(std::string("poolreset-") + TR::Name()) + ", \"class\": " + verif::JStr(TR::Name()) + ", \"ops\": " + verif::JIntArray(seq) + ", \"op_names\": " + verif::JStrArray(names);
}

template <class TR> static void RunClass(const verif::Args & args, verif::Result & res, int depth, const std::string & onlyClass)
{
   if (!onlyClass.empty() && onlyClass != TR::Name()) return;
   const std::string partName = std::string("poolreset-") + TR::Name();
   if (!args.WantPart(partName)) return;
   const double t0 = verif::NowS();
   const int k = TR::NumMut(); const size_t n = NumCases(k, depth);
   std::vector<verif::ParRecord> recs; std::vector<size_t> lost;
   const double dl = args.t0 + args.deadline * 0.9;
   const bool ok = verif::ParMap(n, args.workers, [&](size_t idx, std::string & rec) {
      std::vector<int> seq; DecodeCase(idx, k, seq); CaseOut o; RunCase<TR>(seq, o);
      const verif::Hash128 hu = verif::HashStr(o.usedState), hr = verif::HashStr(o.recycledState);
      rec.push_back(o.sameStorage ? 1 : 0); rec.append((const char *)&hu, sizeof(hu)); rec.append((const char *)&hr, sizeof(hr));
      int32_t nf = o.fields; rec.append((const char *)&nf, 4);
      for (size_t i = 0; i < o.diffs.size(); i++) { rec += o.diffs[i].field; rec.push_back('\0'); rec += o.diffs[i].fresh; rec.push_back('\0'); rec += o.diffs[i].recycled; rec.push_back('\0'); }
   }, recs, &lost, [dl]() { return verif::NowS() > dl; });
   verif::Part p; p.name = partName; p.bound_completed = depth;
   std::set<verif::Hash128> used, recycled; std::map<std::string, int> perKey; uint64_t notSame = 0, nviol = 0;
   for (size_t r = 0; r < recs.size(); r++) {
      const std::string & d = recs[r].data; size_t off = 0;
      const bool same = d[off++] != 0; verif::Hash128 hu, hr; memcpy(&hu, d.data() + off, sizeof(hu)); off += sizeof(hu); memcpy(&hr, d.data() + off, sizeof(hr)); off += sizeof(hr);
      int32_t nf; memcpy(&nf, d.data() + off, 4); off += 4;
      used.insert(hu); if (same) { recycled.insert(hr); p.evaluations += (uint64_t)nf; } else notSame++;
      p.transitions++;
      std::vector<int> seq; DecodeCase(recs[r].idx, k, seq);
      while (off < d.size()) {
         std::string field = d.c_str() + off; off += field.size() + 1; std::string fv = d.c_str() + off; off += fv.size() + 1; std::string rv = d.c_str() + off; off += rv.size() + 1;
         const std::string key = std::string("pool-reset:") + TR::Name() + ":" + field;
         const std::string desc = partName + ": after this history, release and re-obtaining the same storage, `" + field + "` is " + rv + " but a never-used instance has " + fv;
         nviol++;
         if (perKey[key]++ >= 3) continue;
         if (TR::ObserveOnly()) { if (perKey[key] == 1) res.observations.push_back(desc + " (the class's reset is a deliberate no-op; its users re-check their wake-up condition in a loop)" + " history: " + verif::JStrArray([&]() { std::vector<std::string> nn; for (size_t i = 0; i < seq.size(); i++) nn.push_back(TR::MutName(seq[i])); return nn; }())); continue; }
         res.AddViolation(key, desc, res.WriteReplay(args, partName, CaseJson<TR>(res, seq) + ", \"field\": " + verif::JStr(field) + ", \"fresh\": " + verif::JStr(fv) + ", \"recycled\": " + verif::JStr(rv) + "}"));
      }
   }
   if (!ok && !lost.empty()) {
      for (size_t i = 0; i < lost.size() && i < 3; i++) { std::vector<int> seq; DecodeCase(lost[i], k, seq); res.AddViolation(std::string("fatal:") + TR::Name(), partName + ": the worker died on or before this history (sanitizer report / abort)", res.WriteReplay(args, partName, CaseJson<TR>(res, seq) + "}")); }
   }
   p.states = used.size(); p.distinct_outcomes = recycled.size();
   p.exhaustive = ok && recs.size() == n; if (!p.exhaustive) p.cap = verif::Fmt("%llu of %llu cases done (deadline or worker death)", (unsigned long long)recs.size(), (unsigned long long)n);
   if (notSame) res.infra_errors.push_back(partName + verif::Fmt(": in %llu cases the released storage did not come back from the pool", (unsigned long long)notSame));
   std::vector<std::string> mn; for (int i = 0; i < k; i++) mn.push_back(TR::MutName(i));
   p.rule = verif::Fmt("every sequence of <=%d of %d public mutators of %s (", depth, k, TR::Name()) + verif::JStrArray(mn) + ") applied to a never-used object obtained from the emptied real pool, then released through its last Ref and the same storage obtained again; "
          "compared: every private field (capacities, manager, refcount excluded) and public observer against the snapshot of that storage before first use, against a stack-constructed instance, a public-API probe against a never-used instance, and every free node of the reachable pools against the pool's default object; "
          "states = distinct object states at the moment of release";
   p.extra["mutators"] = verif::Fmt("%d", k); p.extra["cases"] = verif::Fmt("%llu", (unsigned long long)n); p.extra["differences_found"] = verif::Fmt("%llu", (unsigned long long)nviol);
   for (int sN = 0; sN < 3; sN++) { std::vector<int> seq; DecodeCase((n - 1) - (size_t)(((uint64_t)args.seed * 7919u + (uint64_t)sN * 104729u) % n), k, seq); p.samples.push_back(CaseJson<TR>(res, seq) + "}"); }
   p.wall_s = verif::NowS() - t0;
   res.parts.push_back(p);
   fprintf(stderr, "C10poolreset %-48s cases=%llu states-at-release=%llu recycled-states=%llu differences=%llu %.1fs\n", TR::Name(), (unsigned long long)p.transitions, (unsigned long long)p.states, (unsigned long long)p.distinct_outcomes, (unsigned long long)nviol, p.wall_s);
}

template <class TR> static bool ReplayClass(const verif::ReplayDoc & d, int & rc)
{
   if (d.Str("class") != TR::Name()) return false;
   std::vector<int> seq; std::map<std::string, std::vector<long> >::const_iterator it = d.ints.find("ops"); if (it != d.ints.end()) for (size_t i = 0; i < it->second.size(); i++) seq.push_back((int)it->second[i]);
   CaseOut o; RunCase<TR>(seq, o);
   printf("replay class=%s history=", TR::Name()); for (size_t i = 0; i < seq.size(); i++) printf("%s%s", i ? " ; " : "", TR::MutName(seq[i]));
   printf("\nsame storage came back: %s\nstate at release: %s\nstate when obtained again: %s\n", o.sameStorage ? "yes" : "NO", o.usedState.c_str(), o.recycledState.c_str());
   for (size_t i = 0; i < o.diffs.size(); i++) printf("%s pool-reset:%s:%s  recycled=%s  never-used=%s\n", TR::ObserveOnly() ? "OBSERVED" : "VIOLATION", TR::Name(), o.diffs[i].field.c_str(), o.diffs[i].recycled.c_str(), o.diffs[i].fresh.c_str());
   if (o.diffs.empty()) printf("result: OK\n");
   rc = (o.diffs.empty() || TR::ObserveOnly()) ? 0 : 1; return true;
}

int main(int argc, char ** argv)
{
   verif::Args args; args.Parse(argc, argv);
   verif::Result res; res.harness = "C10_poolreset";
   { Message s(0x53414d50); (void) s.AddInt32("a", 1); (void) s.AddInt32("a", 2); (void) s.AddString("b", "x"); (void) s.AddString("b", "y"); (void) s.AddFloat("c", 1.0f); Message sub(3); (void) sub.AddBool("t", true); (void) s.AddMessage("d", sub);
     g_sampleFlatLen = s.FlattenedSize(); if (g_sampleFlatLen > sizeof(g_sampleFlat)) { fprintf(stderr, "sample too large\n"); return 3; } s.FlattenToBytes(g_sampleFlat, g_sampleFlatLen); }
   if (!args.replay.empty()) {
      verif::ReplayDoc d; if (!d.Load(args.replay)) { fprintf(stderr, "cannot read %s\n", args.replay.c_str()); return 3; }
      int rc = 3;
      if (ReplayClass<MessageTR>(d, rc) || ReplayClass<ByteBufferTR>(d, rc) || ReplayClass<DataNodeTR>(d, rc) || ReplayClass<StringMatcherTR>(d, rc) || ReplayClass<SegmentedStringMatcherTR>(d, rc) || ReplayClass<StringMatcherQueueTR>(d, rc) || ReplayClass<SocketTR>(d, rc) || ReplayClass<WaitConditionTR>(d, rc)) return rc;
      fprintf(stderr, "unknown class in replay file\n"); return 3;
   }
   int depth = args.Thorough() ? 4 : 3; if (args.kv.count("depth")) depth = atoi(args.kv["depth"].c_str());
   const std::string only = args.kv.count("class") ? args.kv["class"] : "";
   RunClass<DataNodeTR>(args, res, depth, only);
   RunClass<MessageTR>(args, res, depth, only);
   RunClass<ByteBufferTR>(args, res, depth, only);
   RunClass<StringMatcherTR>(args, res, depth, only);
   RunClass<SegmentedStringMatcherTR>(args, res, depth, only);
   RunClass<StringMatcherQueueTR>(args, res, depth, only);
   RunClass<SocketTR>(args, res, depth + 1, only);
   RunClass<WaitConditionTR>(args, res, depth + 1, only);
   res.observations.push_back("not covered: ImmutableHashtablePool's internal pool (DataNode subscriber tables; objects are immutable after creation and only reachable through the reflector), DataNode::_subscribers (set only by StorageReflectSession, a friend), out-of-memory paths");
   return res.Write(args);
}
