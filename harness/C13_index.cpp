// C13 -- An ordered child index replayed from its update log equals the server's index.
//
// SEQX over the in-process reflector (harness/reflector_l1.h): a real ReflectServer with real StorageReflectSessions
//   O  (host hO, id 1)  owner of the index node /hO/1/n (and of its clone /hO/1/c); also subscribed to /*/*/* from the start, so the
//                       owner keeps a replica from the update log as well (index updates are always reflected to the owner)
//   S1 (host hS, id 2)  subscriber to /*/*/* from the start
//   S2 (host hS, id 3)  JOINS at any position of the history (three ways: SUBSCRIBE with initial values; SUBSCRIBE quietly + GETDATA;
//                       SUBSCRIBE and GETDATA arriving in one read = two snapshots in a row); enabled once
//   P  (host hP, id 4)  second owner, working on its own /hP/4/n
//   V  (host hV, id 5)  observer: no data, no subscriptions; asks for a fresh snapshot after every command
// O and P are C13Session objects (harness/C13_session.h): two extra commands give access to the protected subtree API
// (CloneDataNodeSubtree; SaveNodeTreeToMessage + RemoveDataNodes + RestoreNodeTreeFromMessage).
//
// Children are addressed by POSITION in the index ("first", "second", "last") or by a fixed explicit name (a, b, x), never by a
// literal generated name: generated names (I0, I1, ...) depend on recycled DataNode state (finding F15), so the harness binds every
// real generated name to an abstract token g<k> (k = order of creation under that parent) the moment it appears and canonical
// forms use the RANK of the token among the living generated children of the parent.
//
// Oracle after EVERY command (the server is quiescent by construction, and that is checked):
//   * every subscriber's replica -- path -> list of names, advanced by applying each PR_RESULT_INDEXUPDATED instruction it was
//     sent, in order: "c" clears, "i<pos>:<name>" inserts at pos, "r<pos>:<name>" removes at pos; an instruction that does not fit
//     the replica (pos beyond the end, name at pos differs) is itself a divergence -- equals the servers' _orderedIndex of every
//     node, read in-process                                                             -> replica-diverged:<kind of last command>
//   * a fresh snapshot requested by the observer, and one requested by the owner, equal it -> snapshot-vs-index:(observer|owner-request):<kind>
//   * every index entry is a current child of its node, no name twice                       -> index-entry-not-a-child:<kind>, index-duplicate:<kind>
//   * node set, children and index (membership and, where the documentation defines it, ORDER) equal a reference model that
//     follows StorageReflectConstants.h / StorageReflectSession.h                           -> tree-vs-reference / children-vs-reference / index-order :<kind>
// PR_RESULT_DATAITEMS are ignored by the replicas (C04 covers them).  A removed node's index entries are reported as removed
// one by one, so a replica that only follows the index log ends up empty for a removed node.
//
// Parts: "from-empty" (full 50-command alphabet, depth 5 quick / 6 thorough), "from-prefixes" (full alphabet from 3 populated
// start states, depth 3 / 4), "core-deep" (the 25 commands marked C below, depth 6 / 8).  --depth / --pdepth / --cdepth override.
// Execution is lazy and verdicts are memoised per history prefix per process exactly as in C04_mirror.cpp: enabledness is judged
// on the (pure) reference, so a disabled command costs no server work; every distinct prefix is executed and compared at least
// once in every process that extends it.  C13_TRACE=1 with --replay prints what every client was sent after each command.
//
// Outside the compared domain (executed, reference follows the implementation, a disagreement there is reported as a harness
// calibration error, not as a violation): ORDER after REORDERDATA "before <an existing but non-indexed child>", after a
// wildcard REORDERDATA (children are visited in the node's own child order) and after restoring a saved subtree over a partly
// existing one.  Explicit child names of the form I<digits> are never used.  QUIET flags are never used.
#include "harness/reflector_l1.h"
#include "harness/C13_session.h"
#include "engines/seqx/seqx.h"

using namespace seqx;
using l1::MessageRef;
using l1::DataNode;

enum { RO = 0, RS1 = 1, RS2 = 2, RP = 3, RV = 4, NROLE = 5 };
static const char * kHost[NROLE] = { "hO", "hS", "hS", "hP", "hV" };
static const uint32_t kId[NROLE] = { 1, 2, 3, 4, 5 };
static const char * kRoleName[NROLE] = { "O", "S1", "S2", "P", "V" };
enum { NSUB = 3 };                                  // replica holders: O, S1, S2 (roles 0..2)

enum { TN_ON = 0, TN_OC = 1, TN_PN = 2, NTN = 3 };  // tracked (possibly indexed) nodes
static const char * kTnPath[NTN] = { "/hO/1/n", "/hO/1/c", "/hP/4/n" };
static const char * kTnRel[NTN] = { "n", "c", "n" };
static const int kTnOwner[NTN] = { RO, RO, RP };
static const size_t kMaxKids[NTN] = { 4, 4, 3 };
static const char * kAll = "/*/*/*";

// ------------------------------------------------------------------------------------------------ reference model (pure)
struct RNode {
   bool exists; std::vector<std::string> kids, index; int nextGen;   // kids in the node's own child (creation) order
   RNode() : exists(false), nextGen(0) {}
   bool Has(const std::string & t) const { return std::find(kids.begin(), kids.end(), t) != kids.end(); }
   int Pos(const std::string & t) const { for (size_t i = 0; i < index.size(); i++) if (index[i] == t) return (int)i; return -1; }
   void Drop(const std::string & t) { kids.erase(std::remove(kids.begin(), kids.end(), t), kids.end()); index.erase(std::remove(index.begin(), index.end(), t), index.end()); }
   void Clear() { kids.clear(); index.clear(); }
   // INSERTORDEREDDATA: new generated child; before an INDEXED child of that name, else appended
   std::string Insert(const std::string & before) { std::string t = "g" + l1::U32((uint32_t)nextGen++); kids.push_back(t); const int p = before.empty() ? -1 : Pos(before); if (p >= 0) index.insert(index.begin() + p, t); else index.push_back(t); return t; }
   // REORDERDATA of one child: before == OUT removes it from the index; before an indexed child: just before it; anything else: to the end
   void Reorder(const std::string & t, const std::string & before, bool out)
   {
      if (!Has(t) || (!out && before == t)) return;
      index.erase(std::remove(index.begin(), index.end(), t), index.end());
      if (out) return;
      const int p = Has(before) ? Pos(before) : -1;
      if (p >= 0) index.insert(index.begin() + p, t); else index.push_back(t);
   }
};
struct Shadow { RNode t[NTN]; bool joined; Shadow() : joined(false) {} };

static bool IsGenTok(const std::string & t) { return t.size() > 1 && t[0] == 'g'; }
static int GenOrd(const std::string & t) { return atoi(t.c_str() + 1); }

// ------------------------------------------------------------------------------------------------ alphabet
enum Code { INS, INS2, SETIDX, SETNODE, SETKID, SETFIRST, REORD, REORD_ALL, RM_KID, RM_NODE, RM_ALL, BATCH_INS_REORD, BATCH_INS_GET, CLONE, RESTORE, RESNAP, JOIN };
enum Sel { S_NONE, S_FIRST, S_SECOND, S_LAST /* needs >=3 entries */, S_LAST2 /* needs >=2 */, S_X /* child x */, S_XNI /* child x, not indexed */, S_A, S_B, S_END, S_MISSING, S_OUT, S_SELF };
struct Op { Code code; int tn; Sel who; Sel before; int variant; std::string name, kind; bool orderDefined; };

// what one command does, resolved on the reference state it is applied to
struct StepInfo { std::string who, before; bool out; std::string kind; std::vector<std::string> created; StepInfo() : out(false) {} };

static bool Resolve(const RNode & n, Sel s, std::string & tok)
{
   switch (s) {
      case S_FIRST:  if (n.index.size() < 1) return false; tok = n.index[0]; return true;
      case S_SECOND: if (n.index.size() < 2) return false; tok = n.index[1]; return true;
      case S_LAST:   if (n.index.size() < 3) return false; tok = n.index.back(); return true;
      case S_LAST2:  if (n.index.size() < 2) return false; tok = n.index.back(); return true;
      case S_X:      if (!n.Has("x")) return false; tok = "x"; return true;
      case S_XNI:    if (!n.Has("x") || n.Pos("x") >= 0) return false; tok = "x"; return true;
      case S_A:      tok = "a"; return true;
      case S_B:      tok = "b"; return true;
      case S_END:    tok = ""; return true;
      case S_MISSING: tok = "zz"; return true;
      default: break;
   }
   return false;
}

// Applies op to the reference; returns false when the op is not enabled in that state (s may then be partly modified).
static bool Step(Shadow & s, const Op & o, StepInfo & inf)
{
   RNode & n = s.t[o.tn];
   const size_t maxKids = kMaxKids[o.tn];
   inf.kind = o.kind;
   switch (o.code) {
      case INS:
         if (!n.exists || n.kids.size() >= maxKids || !Resolve(n, o.before, inf.before)) return false;
         inf.created.push_back(n.Insert(inf.before)); return true;
      case INS2:   // one Message: a child before the first entry, a second child at the end
         if (!n.exists || n.kids.size() + 2 > maxKids || !Resolve(n, S_FIRST, inf.before)) return false;
         inf.created.push_back(n.Insert(inf.before)); inf.created.push_back(n.Insert("")); return true;
      case SETIDX: {   // SETDATA n/<name> with SETDATANODE_FLAG_ADDTOINDEX: creates + appends; an existing node is left completely alone
         if (!Resolve(n, o.who, inf.who)) return false;
         if (n.Has(inf.who)) { if (o.who != S_A) return false; inf.kind = "set-addtoindex-existing-child"; return true; }
         if (n.kids.size() >= maxKids) return false;
         if (!n.exists) { n.exists = true; inf.kind = "set-addtoindex-creates-parent"; }
         n.kids.push_back(inf.who); n.index.push_back(inf.who); return true; }
      case SETNODE:
         if (o.variant == 1 && n.exists) return false;   // P: only re-creation
         if (!n.exists) inf.kind = "set-node-creates"; n.exists = true; return true;
      case SETKID:   // plain SETDATA n/x: never touches the index
         inf.who = "x";
         if (!n.Has("x")) { if (n.kids.size() >= maxKids) return false; n.exists = true; n.kids.push_back("x"); inf.kind = "set-nonindexed-creates"; }
         else inf.kind = (n.Pos("x") >= 0) ? "set-overwrites-indexed" : "set-overwrites-nonindexed";
         return true;
      case SETFIRST:
         return Resolve(n, S_FIRST, inf.who);
      case REORD: {
         if (!Resolve(n, o.who, inf.who)) return false;
         if (o.before == S_OUT) inf.out = true;
         else if (o.before == S_SELF) inf.before = inf.who;
         else if (o.before == S_END) inf.before = "zz";
         else { if (!Resolve(n, o.before, inf.before) || inf.before == inf.who) return false; }
         n.Reorder(inf.who, inf.before, inf.out); return true; }
      case REORD_ALL: {   // REORDERDATA n/*: every child, in the node's own child order
         if (n.kids.empty()) return false;
         if (o.before == S_OUT) inf.out = true; else if (o.before == S_END) inf.before = "zz"; else if (!Resolve(n, o.before, inf.before)) return false;
         const std::vector<std::string> all = n.kids;
         for (size_t i = 0; i < all.size(); i++) n.Reorder(all[i], inf.before, inf.out);
         return true; }
      case RM_KID:
         if (!Resolve(n, o.who, inf.who)) return false;
         n.Drop(inf.who); return true;
      case RM_NODE:
         if (!n.exists) return false;
         n.exists = false; n.Clear(); return true;
      case RM_ALL:
         if (n.kids.empty()) return false;
         n.Clear(); return true;
      case BATCH_INS_REORD:   // BATCH[INSERTORDEREDDATA at end, REORDERDATA <first> -> end]
         if (!n.exists || n.kids.size() >= maxKids || !Resolve(n, S_FIRST, inf.who)) return false;
         inf.created.push_back(n.Insert("")); n.Reorder(inf.who, "zz", false); return true;
      case BATCH_INS_GET:     // BATCH[INSERTORDEREDDATA at end, GETDATA /*/*/*] by the (subscribed) owner: pending update + snapshot
         if (!n.exists || n.kids.size() >= maxKids) return false;
         inf.created.push_back(n.Insert("")); return true;
      case CLONE: {           // CloneDataNodeSubtree(n -> c), c absent; variant 2: twice in a row (the second onto the existing clone)
         RNode & c = s.t[TN_OC];
         if (!n.exists || c.exists) return false;
         if (o.variant == 2 && n.index.empty()) return false;
         const int keep = c.nextGen; c = n; c.nextGen = keep; return true; }
      case RESTORE: {         // SaveNodeTreeToMessage(n); remove n (variant 0) or its first indexed child (variant 1); RestoreNodeTreeFromMessage
         if (o.variant == 0) {
            if (n.kids.empty()) return false;
            std::vector<std::string> k = n.index; for (size_t i = 0; i < n.kids.size(); i++) if (n.Pos(n.kids[i]) < 0) k.push_back(n.kids[i]);
            n.kids = k; return true;    // indexed children are re-created first, in index order; the index is as it was saved
         }
         if (!Resolve(n, S_FIRST, inf.who)) return false;
         n.Drop(inf.who); n.kids.push_back(inf.who); n.index.push_back(inf.who); return true; }   // the missing child is re-created at the END of the index
      case RESNAP: return true;
      case JOIN:
         if (s.joined) return false;
         s.joined = true; return true;
   }
   return false;
}

// ------------------------------------------------------------------------------------------------ replicas
typedef std::map<std::string, std::vector<std::string> > Replica;   // node path -> names in index order (entries with no names are erased)
static std::string NamesText(const std::vector<std::string> & v) { std::string o = "["; for (size_t i = 0; i < v.size(); i++) o += (i ? "," : "") + v[i]; return o + "]"; }
static std::string ReplicaText(const Replica & r) { std::string o = "{"; for (Replica::const_iterator it = r.begin(); it != r.end(); ++it) o += (o.size() > 1 ? " " : "") + it->first + "=" + NamesText(it->second); return o + "}"; }
// applies one PR_RESULT_INDEXUPDATED strictly; returns false (err set) when an instruction does not fit the replica
static bool ApplyIndexUpdated(Replica & rep, const MessageRef & m, std::string & err)
{
   std::vector<l1::IndexOp> ops; if (!l1::ParseIndexUpdated(m, ops)) { err = "not a PR_RESULT_INDEXUPDATED"; return false; }
   for (size_t i = 0; i < ops.size(); i++) {
      const l1::IndexOp & o = ops[i]; std::vector<std::string> & v = rep[o.nodePath];
      const std::string ins = std::string(1, o.op) + (o.op == 'c' ? std::string() : l1::U32(o.index) + ":" + o.key);
      if (o.op == 'c') v.clear();
      else if (o.op == 'i') { if (o.index > v.size()) { err = "instruction " + ins + " for " + o.nodePath + " does not fit the replica " + NamesText(v) + " (position beyond the end)"; return false; } v.insert(v.begin() + o.index, o.key); }
      else if (o.op == 'r') {
         if (o.index >= v.size()) { err = "instruction " + ins + " for " + o.nodePath + " does not fit the replica " + NamesText(v) + " (no such position)"; return false; }
         if (v[o.index] != o.key) { err = "instruction " + ins + " for " + o.nodePath + " does not fit the replica " + NamesText(v) + " (another name is at that position)"; return false; }
         v.erase(v.begin() + o.index);
      }
      else { err = "unknown index instruction '" + ins + "' for " + o.nodePath; return false; }
   }
   for (Replica::iterator it = rep.begin(); it != rep.end(); ) { if (it->second.empty()) rep.erase(it++); else ++it; }
   return true;
}

// ------------------------------------------------------------------------------------------------ the world
struct World {
   l1::L1World * w;
   bool built;
   Shadow sh;          // reference, advanced eagerly (enabledness is judged on it)
   Shadow ex;          // reference as of the last command really executed
   std::map<std::string, std::string> bind[NTN], inv[NTN];   // real child name -> token, token -> real child name (living children only)
   Replica replica[NSUB];
   std::vector<int> pending;                 // commands accepted but not yet executed on the real server (their prefix is known clean)
   verif::Hash128 hist, seed;
   std::string initError, initKey, outcome, receivedText;
   World() : w(NULL), built(false) { hist.a = hist.b = seed.a = seed.b = 0; }
   ~World() { delete w; }
private:
   World(const World &); World & operator=(const World &);
};

static std::set<verif::Hash128> g_cleanPrefixes;   // see C04_mirror.cpp "lazy execution": verdicts are memoised per history prefix per process

static DataNode * NodeAt(const l1::L1World & w, const std::string & fullPath)
{
   DataNode * n = w.RootNode(); size_t pos = 1;
   while (n && pos <= fullPath.size()) {
      size_t e = fullPath.find('/', pos); if (e == std::string::npos) e = fullPath.size();
      muscle::DataNodeRef c; n = n->GetChild(muscle::String(fullPath.substr(pos, e - pos).c_str()), c).IsOK() ? c() : NULL;
      pos = e + 1;
   }
   return n;
}
static std::vector<std::string> KidNames(const DataNode & n) { std::vector<std::string> v; for (muscle::DataNodeRefIterator it = n.GetChildIterator(); it.HasData(); it++) v.push_back((*it.GetKey())()); return v; }
static void CollectIndices(const DataNode & n, const std::string & path, Replica & out)
{
   const muscle::Queue<muscle::DataNodeRef> * idx = n.GetIndex();
   if (idx && idx->HasItems()) { std::vector<std::string> & v = out[path]; for (uint32_t i = 0; i < idx->GetNumItems(); i++) v.push_back((*idx)[i]() ? (*idx)[i]()->GetNodeName()() : "(null)"); }
   for (muscle::DataNodeRefIterator it = n.GetChildIterator(); it.HasData(); it++) CollectIndices(*it.GetValue()(), path + "/" + (*it.GetKey())(), out);
}
static int TnOfPath(const std::string & p) { for (int t = 0; t < NTN; t++) if (p == kTnPath[t]) return t; return -1; }

struct IndexModel {
   std::vector<Op> ops;
   std::vector<std::vector<int> > starts; std::vector<std::string> startNames;
   int partId;

   bool coreOnly;
   void Add(bool core, Code c, int tn, Sel who, Sel before, int variant, const std::string & kind, bool orderDefined, const std::string & text)
   {
      if (coreOnly && !core) return;
      Op o; o.code = c; o.tn = tn; o.who = who; o.before = before; o.variant = variant; o.kind = kind; o.orderDefined = orderDefined;
      o.name = std::string(c == RESNAP ? "S1" : c == JOIN ? "S2" : kRoleName[kTnOwner[tn]]) + ": " + text; ops.push_back(o);
   }
   int FindOp(const std::string & name) const { for (size_t i = 0; i < ops.size(); i++) if (ops[i].name == name) return (int)i; fprintf(stderr, "C13: no op named '%s'\n", name.c_str()); exit(3); }

   explicit IndexModel(bool core = false) : partId(0), coreOnly(core)
   {
      const bool C = true, F = false;   // C: also part of the core alphabet (the deep part)
      const int N = TN_ON, P = TN_PN;
      // simplest first
      Add(C, INS, N, S_NONE, S_END, 0, "insert-at-end", true, "INSERTORDEREDDATA n, at the end");
      Add(C, INS, N, S_NONE, S_FIRST, 0, "insert-before", true, "INSERTORDEREDDATA n, before the first entry");
      Add(C, INS, N, S_NONE, S_SECOND, 0, "insert-before", true, "INSERTORDEREDDATA n, before the second entry");
      Add(F, INS, N, S_NONE, S_LAST, 0, "insert-before", true, "INSERTORDEREDDATA n, before the last entry (>=3 entries)");
      Add(C, INS, N, S_NONE, S_MISSING, 0, "insert-before-missing-name", true, "INSERTORDEREDDATA n, before the missing name zz");
      Add(F, INS, N, S_NONE, S_XNI, 0, "insert-before-nonindexed-child", true, "INSERTORDEREDDATA n, before the non-indexed child x");
      Add(F, INS2, N, S_NONE, S_NONE, 0, "insert-two-in-one-message", true, "INSERTORDEREDDATA n, two children in one Message (before the first entry, at the end)");
      Add(C, SETIDX, N, S_A, S_NONE, 0, "set-addtoindex", true, "SETDATA n/a with ADDTOINDEX");
      Add(F, SETIDX, N, S_B, S_NONE, 0, "set-addtoindex", true, "SETDATA n/b with ADDTOINDEX (b absent)");
      Add(C, SETNODE, N, S_NONE, S_NONE, 0, "set-node", true, "SETDATA n");
      Add(C, SETKID, N, S_NONE, S_NONE, 0, "set-nonindexed", true, "SETDATA n/x (plain)");
      Add(C, SETFIRST, N, S_NONE, S_NONE, 0, "set-overwrites-indexed", true, "SETDATA n/<first entry> (plain overwrite)");
      Add(C, REORD, N, S_FIRST, S_END, 0, "reorder-to-end", true, "REORDERDATA first entry -> end");
      Add(C, REORD, N, S_FIRST, S_LAST, 0, "reorder-before", true, "REORDERDATA first entry -> before the last (>=3 entries)");
      Add(F, REORD, N, S_FIRST, S_SECOND, 0, "reorder-before", true, "REORDERDATA first entry -> before the second");
      Add(C, REORD, N, S_LAST2, S_FIRST, 0, "reorder-before", true, "REORDERDATA last entry -> before the first");
      Add(F, REORD, N, S_FIRST, S_SELF, 0, "reorder-before-itself", true, "REORDERDATA first entry -> before itself");
      Add(F, REORD, N, S_FIRST, S_XNI, 0, "reorder-before-nonindexed-child", false, "REORDERDATA first entry -> before the non-indexed child x");
      Add(C, REORD, N, S_FIRST, S_OUT, 0, "reorder-out-of-index", true, "REORDERDATA first entry -> out of the index");
      Add(F, REORD, N, S_LAST2, S_OUT, 0, "reorder-out-of-index", true, "REORDERDATA last entry -> out of the index");
      Add(C, REORD, N, S_X, S_END, 0, "reorder-child-x-to-end", true, "REORDERDATA child x -> end (joins the index when it is not in it)");
      Add(F, REORD, N, S_X, S_FIRST, 0, "reorder-child-x-before", true, "REORDERDATA child x -> before the first entry");
      Add(F, REORD, N, S_XNI, S_OUT, 0, "reorder-nonindexed-out-of-index", true, "REORDERDATA non-indexed child x -> out of the index");
      Add(F, REORD_ALL, N, S_NONE, S_END, 0, "reorder-wildcard-to-end", false, "REORDERDATA n/* -> end");
      Add(F, REORD_ALL, N, S_NONE, S_OUT, 0, "reorder-wildcard-out-of-index", true, "REORDERDATA n/* -> out of the index");
      Add(F, REORD_ALL, N, S_NONE, S_FIRST, 0, "reorder-wildcard-before", false, "REORDERDATA n/* -> before the first entry");
      Add(C, RM_KID, N, S_FIRST, S_NONE, 0, "remove-indexed-child", true, "REMOVEDATA n/<first entry>");
      Add(F, RM_KID, N, S_SECOND, S_NONE, 0, "remove-indexed-child", true, "REMOVEDATA n/<second entry>");
      Add(C, RM_KID, N, S_LAST, S_NONE, 0, "remove-indexed-child", true, "REMOVEDATA n/<last entry> (>=3 entries)");
      Add(C, RM_KID, N, S_XNI, S_NONE, 0, "remove-nonindexed-child", true, "REMOVEDATA n/x (x not indexed)");
      Add(C, RM_NODE, N, S_NONE, S_NONE, 0, "remove-node", true, "REMOVEDATA n");
      Add(C, RM_ALL, N, S_NONE, S_NONE, 0, "remove-wildcard", true, "REMOVEDATA n/*");
      Add(C, BATCH_INS_REORD, N, S_NONE, S_NONE, 0, "batch-insert-reorder", true, "BATCH[INSERTORDEREDDATA n at the end, REORDERDATA first entry -> end]");
      Add(F, BATCH_INS_GET, N, S_NONE, S_NONE, 0, "batch-insert-getdata", true, "BATCH[INSERTORDEREDDATA n at the end, GETDATA /*/*/*]");
      Add(F, RESNAP, N, S_NONE, S_NONE, 0, "subscriber-requests-snapshot-again", true, "GETDATA /*/*/* (snapshot again: clear + inserts on the live replica)");
      Add(C, JOIN, N, S_NONE, S_NONE, 0, "join-subscribe", true, "joins: SUBSCRIBE:/*/*/* (initial values carry the snapshot)");
      Add(C, JOIN, N, S_NONE, S_NONE, 1, "join-quiet-subscribe-then-getdata", true, "joins: SUBSCRIBE:/*/*/* quietly, then GETDATA /*/*/*");
      Add(F, JOIN, N, S_NONE, S_NONE, 2, "join-subscribe-and-getdata-in-one-read", true, "joins: SUBSCRIBE:/*/*/* and GETDATA /*/*/* in one read (two snapshots)");
      Add(C, CLONE, N, S_NONE, S_NONE, 1, "clone-subtree", true, "CloneDataNodeSubtree n -> c (c absent)");
      Add(F, CLONE, N, S_NONE, S_NONE, 2, "clone-subtree-onto-existing-clone", true, "CloneDataNodeSubtree n -> c twice (second time onto the existing clone)");
      Add(F, RM_NODE, TN_OC, S_NONE, S_NONE, 0, "remove-clone", true, "REMOVEDATA c");
      Add(C, RESTORE, N, S_NONE, S_NONE, 0, "save-remove-restore-subtree", true, "SaveNodeTreeToMessage n, REMOVE n, RestoreNodeTreeFromMessage");
      Add(F, RESTORE, N, S_NONE, S_NONE, 1, "save-remove-child-restore-subtree", false, "SaveNodeTreeToMessage n, REMOVE n/<first entry>, RestoreNodeTreeFromMessage (over the existing rest)");
      // second owner, same kind of work on its own n
      Add(C, INS, P, S_NONE, S_END, 0, "insert-at-end", true, "INSERTORDEREDDATA n, at the end");
      Add(F, INS, P, S_NONE, S_FIRST, 0, "insert-before", true, "INSERTORDEREDDATA n, before the first entry");
      Add(F, REORD, P, S_LAST2, S_FIRST, 0, "reorder-before", true, "REORDERDATA last entry -> before the first");
      Add(F, REORD, P, S_FIRST, S_OUT, 0, "reorder-out-of-index", true, "REORDERDATA first entry -> out of the index");
      Add(C, RM_KID, P, S_FIRST, S_NONE, 0, "remove-indexed-child", true, "REMOVEDATA n/<first entry>");
      Add(F, RM_NODE, P, S_NONE, S_NONE, 0, "remove-node", true, "REMOVEDATA n");
      Add(F, SETNODE, P, S_NONE, S_NONE, 1, "set-node", true, "SETDATA n (n absent)");
   }

   void AddStart(const std::string & name, const char * const * opNames)
   {
      std::vector<int> v; for (int i = 0; opNames && opNames[i]; i++) v.push_back(FindOp(opNames[i]));
      starts.push_back(v); startNames.push_back(name);
   }
   void EmptyStartOnly() { starts.clear(); startNames.clear(); AddStart("O and P each hold an empty node n; O and S1 subscribed to /*/*/*; S2 not joined", NULL); }
   void PrefixStarts()
   {
      starts.clear(); startNames.clear();
      static const char * s1[] = { "O: INSERTORDEREDDATA n, at the end", "O: INSERTORDEREDDATA n, at the end", "O: SETDATA n/x (plain)", NULL };
      AddStart("O's n holds two generated indexed children and the non-indexed child x", s1);
      static const char * s2[] = { "O: SETDATA n/a with ADDTOINDEX", "O: INSERTORDEREDDATA n, before the first entry", "O: SETDATA n/x (plain)", "O: REORDERDATA child x -> end (joins the index when it is not in it)",
                                   "O: CloneDataNodeSubtree n -> c (c absent)", "S2: joins: SUBSCRIBE:/*/*/* quietly, then GETDATA /*/*/*", NULL };
      AddStart("O's n holds [generated, a, x (indexed by REORDERDATA)], cloned to c; S2 joined", s2);
      static const char * s3[] = { "P: INSERTORDEREDDATA n, at the end", "P: INSERTORDEREDDATA n, before the first entry", "O: INSERTORDEREDDATA n, at the end", "O: SETDATA n/a with ADDTOINDEX",
                                   "O: INSERTORDEREDDATA n, before the second entry", "S2: joins: SUBSCRIBE:/*/*/* (initial values carry the snapshot)", NULL };
      AddStart("P's n holds two generated children; O's n holds [generated, generated, a]; S2 joined", s3);
   }

   typedef ::World World;
   int NumStarts() const { return (int)starts.size(); }
   int NumOps() const { return (int)ops.size(); }
   std::string OpName(int op) const { return ops[op].name; }
   std::string StartName(int s) const { return startNames[s]; }

   void Init(World & W, int start) const
   {
      W.seed.a = verif::Mix64(0xC13C13ULL + (uint64_t)start * 977 + (uint64_t)partId * 7919); W.seed.b = verif::Mix64(W.seed.a ^ 0x9e3779b97f4a7c15ULL);
      W.hist = W.seed;
      W.sh.t[TN_ON].exists = W.sh.t[TN_PN].exists = true; W.ex = W.sh;
      std::string msg, key;
      for (size_t i = 0; i < starts[start].size(); i++) {
         const int st = Apply(W, starts[start][i], msg, key);
         if (st != SEQX_OK) { W.initError = "start-state prefix op '" + ops[starts[start][i]].name + "': " + (st == SEQX_DISABLED ? std::string("disabled") : msg); W.initKey = (st == SEQX_DISABLED || st < 0) ? "infra" : key; return; }
      }
   }

   static l1::Session * MakeSession(int, const std::string & host) { return new c13::C13Session(host); }

   int Build(World & W, std::string & msg, std::string & key) const
   {
      W.built = true; W.w = new l1::L1World; W.w->makeSession = MakeSession;
      for (int r = 0; r < NROLE; r++) if (!W.w->Attach(r, kHost[r], kId[r])) { msg = "attach failed"; key = "infra"; return -1; }
      W.w->Inject(RO, l1::Subscribe(kAll)); W.w->Inject(RS1, l1::Subscribe(kAll));
      W.w->Inject(RO, l1::SetData("n", l1::Payload(0))); W.w->Inject(RP, l1::SetData("n", l1::Payload(0)));
      int st = Carry(W, "start", true, msg, key);
      if (st == SEQX_OK && !g_cleanPrefixes.count(W.seed)) { Op none; none.orderDefined = true; st = Compare(W, none, "start", msg, key); if (st == SEQX_OK) g_cleanPrefixes.insert(W.seed); }
      return st;
   }
   int Flush(World & W, std::string & msg, std::string & key) const
   {
      if (!W.built) { const int st = Build(W, msg, key); if (st != SEQX_OK) return st; }
      for (size_t i = 0; i < W.pending.size(); i++) {
         const int st = Exec(W, W.pending[i], false, msg, key);
         if (st != SEQX_OK) { msg = "operation '" + ops[W.pending[i]].name + "' of a prefix recorded as clean did not re-execute cleanly: " + msg; key = "infra"; W.pending.clear(); return -1; }
      }
      W.pending.clear();
      return SEQX_OK;
   }

   int Apply(World & W, int opi, std::string & msg, std::string & key) const
   {
      if (!W.initError.empty()) { msg = "start state is not clean: " + W.initError; key = "start-state:" + W.initKey; return (W.initKey == "infra") ? -1 : SEQX_VIOLATION; }
      { Shadow t = W.sh; StepInfo inf; if (!Step(t, ops[opi], inf)) return SEQX_DISABLED; W.sh = t; }
      W.hist.a = verif::Mix64(W.hist.a + (uint64_t)opi + 1); W.hist.b = verif::Mix64((W.hist.b ^ ((uint64_t)opi + 0x51ed27ULL)) * 0x100000001b3ULL);
      if (g_cleanPrefixes.count(W.hist)) { W.pending.push_back(opi); return SEQX_OK; }
      int st = Flush(W, msg, key);
      if (st != SEQX_OK) return st;
      st = Exec(W, opi, true, msg, key);
      if (st == SEQX_OK) { if (g_cleanPrefixes.size() > 2000000) g_cleanPrefixes.clear(); g_cleanPrefixes.insert(W.hist); }
      return st;
   }

   std::string Real(const World & W, int tn, const std::string & tok) const { std::map<std::string, std::string>::const_iterator it = W.inv[tn].find(tok); return it == W.inv[tn].end() ? std::string("?unbound-") + tok : it->second; }

   // executes one command on the real server and on the executed-reference; compare=false: state-carrying part only
   int Exec(World & W, int opi, bool compare, std::string & msg, std::string & key) const
   {
      const Op & o = ops[opi];
      StepInfo inf;
      if (!Step(W.ex, o, inf)) { msg = "executed reference disagrees with the eager reference about enabledness of " + o.name; key = "infra"; return -1; }
      l1::L1World & w = *W.w;
      const int tn = o.tn, r = kTnOwner[tn];
      const std::string rel = kTnRel[tn];
      const MessageRef kid = l1::Payload(1);
      c13::g_apiError.clear();
      switch (o.code) {
         case INS: { MessageRef m = l1::InsertOrderedData(l1::Keys(rel)); l1::AddData(m, (o.before == S_END) ? std::string() : (o.before == S_MISSING) ? std::string("zz") : Real(W, tn, inf.before), kid); w.Inject(r, m); break; }
         case INS2: { MessageRef m = l1::InsertOrderedData(l1::Keys(rel)); l1::AddData(m, Real(W, tn, inf.before), kid); l1::AddData(m, "", l1::Payload(1)); w.Inject(r, m); break; }
         case SETIDX: w.Inject(r, l1::SetData(rel + "/" + inf.who, kid, l1::Flags(muscle::SETDATANODE_FLAG_ADDTOINDEX))); break;
         case SETNODE: w.Inject(r, l1::SetData(rel, l1::Payload(0))); break;
         case SETKID: w.Inject(r, l1::SetData(rel + "/x", kid)); break;
         case SETFIRST: w.Inject(r, l1::SetData(rel + "/" + Real(W, tn, inf.who), kid)); break;
         case REORD: w.Inject(r, l1::ReorderData(rel + "/" + Real(W, tn, inf.who), inf.out ? std::string(PR_NAME_REMOVE_FROM_INDEX) : (o.before == S_END) ? std::string("zz") : Real(W, tn, inf.before))); break;
         case REORD_ALL: w.Inject(r, l1::ReorderData(rel + "/*", inf.out ? std::string(PR_NAME_REMOVE_FROM_INDEX) : (o.before == S_END) ? std::string("zz") : Real(W, tn, inf.before))); break;
         case RM_KID: w.Inject(r, l1::RemoveData(l1::Keys(rel + "/" + Real(W, tn, inf.who)))); break;
         case RM_NODE: w.Inject(r, l1::RemoveData(l1::Keys(rel))); break;
         case RM_ALL: w.Inject(r, l1::RemoveData(l1::Keys(rel + "/*"))); break;
         case BATCH_INS_REORD: { MessageRef m = l1::InsertOrderedData(l1::Keys(rel)); l1::AddData(m, "", kid); w.Inject(r, l1::Batch(m, l1::ReorderData(rel + "/" + Real(W, tn, inf.who), "zz"))); break; }
         case BATCH_INS_GET: { MessageRef m = l1::InsertOrderedData(l1::Keys(rel)); l1::AddData(m, "", kid); w.Inject(r, l1::Batch(m, l1::GetData(l1::Keys(kAll)))); break; }
         case CLONE: w.Inject(r, c13::CloneCommand("n", "c", o.variant)); break;
         case RESTORE: w.Inject(r, c13::SaveRemoveRestoreCommand("n", o.variant == 0 ? std::string("n") : "n/" + Real(W, tn, inf.who))); break;
         case RESNAP: w.Inject(RS1, l1::GetData(l1::Keys(kAll))); break;
         case JOIN:
            if (o.variant == 0) w.Inject(RS2, l1::Subscribe(kAll));
            else if (o.variant == 1) { w.Inject(RS2, l1::Subscribe(kAll, MessageRef(), true)); w.Inject(RS2, l1::GetData(l1::Keys(kAll))); }
            else { std::vector<MessageRef> two; two.push_back(l1::Subscribe(kAll)); two.push_back(l1::GetData(l1::Keys(kAll))); w.InjectMany(RS2, two); }
            break;
      }
      if (!c13::g_apiError.empty()) { key = "api-error:" + inf.kind; msg = "the protected subtree API reported an error: " + c13::g_apiError; return SEQX_VIOLATION; }
      int st = Carry(W, inf.kind, compare, msg, key);
      if (st == SEQX_OK && compare) st = Compare(W, o, inf.kind, msg, key);
      if (getenv("C13_TRACE")) {   // debugging aid for --replay: what every client was sent, and the resulting indices
         Replica real; if (w.RootNode()) CollectIndices(*w.RootNode(), "", real);
         fprintf(stderr, "--- %s   [%s]\n%s    indices now: %s\n", o.name.c_str(), inf.kind.c_str(), W.receivedText.c_str(), ReplicaText(real).c_str());
      }
      return st;
   }

   // state-carrying part of the oracle: quiescence; every client's queue is drained and every index instruction applied to its
   // replica; real names of new children are bound to the reference's new tokens
   int Carry(World & W, const std::string & kind, bool compare, std::string & msg, std::string & key) const
   {
      l1::L1World & w = *W.w;
      std::string q = w.CheckQuiescent();
      if (!q.empty()) { key = "not-quiescent:" + kind; msg = "server not quiescent after the command: " + q; return SEQX_VIOLATION; }
      W.outcome.clear(); if (compare) W.receivedText.clear();
      for (int r = 0; r < NROLE; r++) {
         std::vector<MessageRef> got = w.Drain(r);
         const bool holder = (r < NSUB) && (r != RS2 || W.ex.joined);
         for (size_t i = 0; i < got.size(); i++) {
            if (compare) W.receivedText += std::string(kRoleName[r]) + "<-" + l1::MsgText(got[i]) + "\n";
            if (!holder) { key = "unexpected-message:" + kind; msg = std::string("client ") + kRoleName[r] + " (no subscription, no request) was sent " + l1::MsgText(got[i]); return SEQX_VIOLATION; }
            if (got[i]()->what == muscle::PR_RESULT_DATAITEMS) { W.outcome += std::string(kRoleName[r]) + ":D;"; continue; }
            if (got[i]()->what != muscle::PR_RESULT_INDEXUPDATED) { key = "unexpected-message:" + kind; msg = std::string("client ") + kRoleName[r] + " was sent " + l1::MsgText(got[i]); return SEQX_VIOLATION; }
            std::vector<l1::IndexOp> iops; (void) l1::ParseIndexUpdated(got[i], iops);
            for (size_t k = 0; k < iops.size(); k++) W.outcome += std::string(kRoleName[r]) + ":" + iops[k].nodePath + ":" + iops[k].op + l1::U32(iops[k].index) + ";";
            std::string err;
            if (!ApplyIndexUpdated(W.replica[r], got[i], err)) { key = "replica-diverged:" + kind; msg = std::string("replica of ") + kRoleName[r] + ": " + err + "; Message: " + l1::MsgText(got[i]); return SEQX_VIOLATION; }
         }
      }
      // bind the real names of new children to the reference's new tokens (per tracked node, in child order)
      for (int t = 0; t < NTN; t++) {
         DataNode * n = NodeAt(w, kTnPath[t]);
         std::vector<std::string> real; if (n) real = KidNames(*n);
         std::set<std::string> alive(real.begin(), real.end());
         for (std::map<std::string, std::string>::iterator it = W.bind[t].begin(); it != W.bind[t].end(); ) { if (!alive.count(it->first)) { W.inv[t].erase(it->second); W.bind[t].erase(it++); } else ++it; }
         // tokens the reference no longer holds lose their binding too (their real child should be gone; Compare reports it if not)
         const RNode & rn = W.ex.t[t];
         for (std::map<std::string, std::string>::iterator it = W.inv[t].begin(); it != W.inv[t].end(); ) { if (!rn.Has(it->first)) { W.bind[t].erase(it->second); W.inv[t].erase(it++); } else ++it; }
         std::vector<std::string> newReal, newTok;
         for (size_t i = 0; i < real.size(); i++) if (!W.bind[t].count(real[i])) newReal.push_back(real[i]);
         for (size_t i = 0; i < rn.kids.size(); i++) if (!W.inv[t].count(rn.kids[i])) newTok.push_back(rn.kids[i]);
         bool bad = (newReal.size() != newTok.size());
         for (size_t i = 0; !bad && i < newTok.size(); i++) {
            if (t == TN_OC && IsGenTok(newTok[i])) { if (newReal[i] != Real(W, TN_ON, newTok[i]) && W.inv[TN_ON].count(newTok[i])) bad = true; }   // a clone's child carries the source child's name
            else if (IsGenTok(newTok[i]) ? !l1::IsGeneratedName(newReal[i].c_str()) : (newReal[i] != newTok[i])) bad = true;
         }
         if (bad) {
            key = "children-vs-reference:" + kind;
            msg = std::string("children of ") + kTnPath[t] + " after the command: server has " + NamesText(real) + ", of which new: " + NamesText(newReal) + "; the reference expects new children " + NamesText(newTok) + " (g<k> = a server-generated name)";
            return compare ? SEQX_VIOLATION : -1;
         }
         for (size_t i = 0; i < newTok.size(); i++) { W.bind[t][newReal[i]] = newTok[i]; W.inv[t][newTok[i]] = newReal[i]; }
      }
      return SEQX_OK;
   }

   std::vector<std::string> ToTokens(const World & W, int t, const std::vector<std::string> & real) const
   {
      std::vector<std::string> v; for (size_t i = 0; i < real.size(); i++) { std::map<std::string, std::string>::const_iterator it = W.bind[t].find(real[i]); v.push_back(it == W.bind[t].end() ? "?" + real[i] : it->second); } return v;
   }

   int Snapshot(World & W, int role, Replica & out, std::string & err) const
   {
      W.w->Inject(role, l1::GetData(l1::Keys(kAll)));
      std::vector<MessageRef> got = W.w->Drain(role);
      for (size_t i = 0; i < got.size(); i++) {
         if (got[i]()->what == muscle::PR_RESULT_DATAITEMS) continue;
         if (!ApplyIndexUpdated(out, got[i], err)) return SEQX_VIOLATION;
      }
      return SEQX_OK;
   }

   int Compare(World & W, const Op & o, const std::string & kind, std::string & msg, std::string & key) const
   {
      l1::L1World & w = *W.w;
      std::string q = w.CheckTreeInvariants();
      if (!q.empty()) {
         key = (q.find("is not a current child") != std::string::npos ? "index-entry-not-a-child:" : q.find("twice") != std::string::npos ? "index-duplicate:" : "tree-invariant:") + kind;
         msg = q + "; received by the last command: " + W.receivedText; return SEQX_VIOLATION;
      }
      Replica real; if (w.RootNode()) CollectIndices(*w.RootNode(), "", real);
      for (int r = 0; r < NSUB; r++) if (r != RS2 || W.ex.joined) {
         if (W.replica[r] == real) continue;
         key = "replica-diverged:" + kind;
         msg = std::string("replica of ") + kRoleName[r] + " " + ReplicaText(W.replica[r]) + " differs from the server's ordered indices " + ReplicaText(real) + "; received by the last command: " + W.receivedText;
         return SEQX_VIOLATION;
      }
      for (int k = 0; k < 2; k++) {
         Replica snap; std::string err; const int role = k ? RO : RV;
         if (Snapshot(W, role, snap, err) != SEQX_OK || !(snap == real)) {
            // an owner whose _indexingPresent flag is still unset is never sent its own nodes (GetDataCallback's shortcut): one root cause, one key
            const bool flagUnset = (k == 1) && !w.S(RO)->_indexingPresent && !w.S(RO)->IsRoutingFlagSet(muscle::MUSCLE_ROUTING_FLAG_REFLECT_TO_SELF);
            key = std::string("snapshot-vs-index:") + (k ? "owner-request:" : "observer:") + (flagUnset ? std::string("index-built-without-ordered-insert") : kind);
            msg = std::string("the snapshot sent to ") + kRoleName[role] + " on GETDATA /*/*/* " + (err.empty() ? ReplicaText(snap) : "(" + err + ")") + " differs from the server's ordered indices " + ReplicaText(real);
            return SEQX_VIOLATION;
         }
      }
      // reference: node set, children, index
      {
         std::set<std::string> want, have;
         for (int t = 0; t < NTN; t++) if (W.ex.t[t].exists) { want.insert(kTnPath[t]); for (size_t i = 0; i < W.ex.t[t].kids.size(); i++) want.insert(std::string(kTnPath[t]) + "/" + Real(W, t, W.ex.t[t].kids[i])); }
         std::map<std::string, std::string> walk = w.WalkTree(3);
         for (std::map<std::string, std::string>::const_iterator it = walk.begin(); it != walk.end(); ++it) have.insert(it->first);
         if (want != have) {
            std::string d; for (std::set<std::string>::const_iterator it = want.begin(); it != want.end(); ++it) if (!have.count(*it)) d += " missing " + *it;
            for (std::set<std::string>::const_iterator it = have.begin(); it != have.end(); ++it) if (!want.count(*it)) d += " extra " + *it;
            key = "tree-vs-reference:" + kind; msg = "node set of the server differs from the reference:" + d; return SEQX_VIOLATION;
         }
      }
      for (int t = 0; t < NTN; t++) {
         DataNode * n = NodeAt(w, kTnPath[t]);
         const RNode & rn = W.ex.t[t];
         std::vector<std::string> kids, idx; if (n) { kids = ToTokens(W, t, KidNames(*n)); Replica::const_iterator it = real.find(kTnPath[t]); if (it != real.end()) idx = ToTokens(W, t, it->second); }
         std::vector<std::string> a = idx, b = rn.index; std::sort(a.begin(), a.end()); std::sort(b.begin(), b.end());
         if (a != b) { key = "index-membership:" + kind; msg = std::string("index of ") + kTnPath[t] + " is " + NamesText(idx) + ", the reference expects the entries " + NamesText(rn.index) + " (g<k> = k-th generated child of that node)"; return SEQX_VIOLATION; }
         if (idx != rn.index) {
            msg = std::string("index of ") + kTnPath[t] + " is " + NamesText(idx) + ", the reference expects the order " + NamesText(rn.index) + " (g<k> = k-th generated child of that node)";
            if (o.orderDefined) { key = "index-order:" + kind; return SEQX_VIOLATION; }
            key = "infra"; msg = "calibration: order after a command whose resulting order the documentation does not define no longer matches the harness's model of the implementation: " + msg; return -1;
         }
         if (kids != rn.kids) { key = "infra"; msg = std::string("calibration: child order of ") + kTnPath[t] + " is " + NamesText(kids) + ", the harness's model of the implementation expects " + NamesText(rn.kids); return -1; }
      }
      return SEQX_OK;
   }

   // ---- canonical form
   std::string CanonTok(const World & W, int t, const std::string & tok) const
   {
      if (!IsGenTok(tok)) return tok;
      int rank = 0; const RNode & rn = W.ex.t[t];
      for (size_t i = 0; i < rn.kids.size(); i++) if (IsGenTok(rn.kids[i]) && GenOrd(rn.kids[i]) < GenOrd(tok)) rank++;
      return "I#" + l1::U32((uint32_t)rank);
   }
   std::string CanonName(const World & W, int t, const std::string & real) const
   {
      std::map<std::string, std::string>::const_iterator it = W.bind[t].find(real);
      return it == W.bind[t].end() ? "?" + real : CanonTok(W, t, it->second);
   }
   void DumpNode(const World & W, const DataNode & n, const std::string & realPath, const std::string & canonPath, std::string & out) const
   {
      const int t = TnOfPath(realPath);
      if (n.GetDepth() >= 1) {
         out += " " + l1::Quote(canonPath) + " d=" + (n.GetData()() ? l1::MsgTextCached(*n.GetData()(), false) : std::string("(null)")) + " s={";
         std::vector<std::pair<uint32_t, uint32_t> > subs;
         for (muscle::ConstHashtableIterator<uint32_t, uint32_t> it(n.GetSubscribers()); it.HasData(); it++) subs.push_back(std::make_pair((uint32_t)it.GetKey(), (uint32_t)it.GetValue()));
         std::sort(subs.begin(), subs.end());
         for (size_t i = 0; i < subs.size(); i++) out += (i ? "," : "") + l1::U32(subs[i].first) + ":" + l1::U32(subs[i].second);
         out += "}";
         const muscle::Queue<muscle::DataNodeRef> * idx = n.GetIndex();
         if (idx) { out += " idx=["; for (uint32_t i = 0; i < idx->GetNumItems(); i++) { const std::string cn = (*idx)[i]()->GetNodeName()(); out += (i ? "," : "") + (t >= 0 ? CanonName(W, t, cn) : cn); } out += "]"; }
         out += "\n";
      }
      // children in the node's OWN order: wildcard commands visit them in that order
      for (muscle::DataNodeRefIterator it = n.GetChildIterator(); it.HasData(); it++) {
         const std::string cn = (*it.GetKey())();
         DumpNode(W, *it.GetValue()(), realPath + "/" + cn, canonPath + "/" + (t >= 0 ? CanonName(W, t, cn) : cn), out);
      }
   }
   void Canon(const World & Wc, std::string & out) const
   {
      World & W = const_cast<World &>(Wc);
      std::string msg, key;
      if (Flush(W, msg, key) != SEQX_OK) { out = "FLUSH-FAILED " + msg; return; }
      out = "TREE\n";
      if (W.w->RootNode()) DumpNode(W, *W.w->RootNode(), "", "", out);
      l1::DumpOpts so; so.tree = false; out += W.w->Dump(so);
      for (int r = 0; r < NSUB; r++) {
         out += std::string("REPLICA ") + kRoleName[r] + ((r == RS2) ? (W.ex.joined ? " joined" : " not-joined") : "") + ":";
         for (Replica::const_iterator it = W.replica[r].begin(); it != W.replica[r].end(); ++it) {
            const int t = TnOfPath(it->first); out += " " + it->first + "=[";
            for (size_t i = 0; i < it->second.size(); i++) out += (i ? "," : "") + (t >= 0 ? CanonName(W, t, it->second[i]) : it->second[i]);
            out += "]";
         }
         out += "\n";
      }
   }
   // distinct observable outcomes: the shape of what each client was sent by the last command (who, node, instruction, position)
   void Outcome(const World & Wc, std::string & out) const
   {
      World & W = const_cast<World &>(Wc); std::string msg, key; (void) Flush(W, msg, key);
      out = W.outcome;
   }
};

static std::string Rule(const IndexModel & m, int depth, const char * what)
{
   return verif::Fmt("every sequence of <=%d commands from a %d-command alphabet, %s (%d start state(s)), each replayed on a fresh real ReflectServer with owner O (index node n, clone c; subscribed to /*/*/*), subscriber S1 (subscribed from the start), S2 (joins at any position, three ways, once), second owner P (own n) and an observer; "
                     "full alphabet (50): INSERTORDEREDDATA at end | before first/second/last | before a missing name | before a non-indexed child | two children in one Message; SETDATA+ADDTOINDEX a (also when a exists), b; plain SETDATA of n, of non-indexed x, of the first indexed child; "
                     "REORDERDATA first->end | ->before last | ->before second | last->before first | first->before itself | ->before non-indexed x | first/last->out of index | x->end | x->before first | x->out | n/* ->end | ->out | ->before first; "
                     "REMOVEDATA first | second | last | non-indexed x | n | n/*; BATCH[insert, reorder]; BATCH[insert, GETDATA] by the subscribed owner; S1 GETDATA again; S2 joins (3 ways); CloneDataNodeSubtree n->c once | twice; REMOVEDATA c; save/remove n/restore; save/remove first child/restore; P: insert end | before first, reorder last->before first, first->out, remove first, remove n, re-create n; "
                     "<=4 children under O's n, <=3 under P's n; children addressed by position or fixed name only; "
                     "after every command: server quiescent, all queues drained, every PR_RESULT_INDEXUPDATED instruction applied strictly to the receiver's replica, replica == in-process _orderedIndex of every node == fresh observer snapshot == fresh owner snapshot, every entry a current child, no duplicates, node set / children / index membership and documented order == reference; "
                     "states deduplicated on: tree in the nodes' own child order with payloads, per-node subscriber tables and indices (generated names by rank of creation among living siblings), per-session state, replicas, S2 joined; a state is non-trivial when its canonical form is new",
                     depth, m.NumOps(), what, m.NumStarts());
}

int main(int argc, char ** argv)
{
   // see C04_mirror.cpp: a small ASan quarantine keeps each replay on warm memory (still dozens of replays deep)
   if (getenv("VERIF_C13_CHILD") == NULL) {
      const char * old = getenv("ASAN_OPTIONS");
      std::string ao = std::string(old ? old : "") + (old && old[0] ? ":" : "") + "quarantine_size_mb=4";
      setenv("ASAN_OPTIONS", ao.c_str(), 1); setenv("VERIF_C13_CHILD", "1", 1);
      char self[4096]; const ssize_t n = readlink("/proc/self/exe", self, sizeof(self) - 1);
      if (n > 0) { self[n] = 0; execv(self, argv); }
   }
   verif::Args args; args.Parse(argc, argv);
   verif::Result res; res.harness = "C13_index";
   IndexModel empty; empty.EmptyStartOnly();
   IndexModel prefixed; prefixed.PrefixStarts(); prefixed.partId = 1;
   IndexModel core(true); core.EmptyStartOnly(); core.partId = 2;
   if (!args.replay.empty()) {
      verif::ReplayDoc d; if (!d.Load(args.replay)) { fprintf(stderr, "cannot read %s\n", args.replay.c_str()); return 3; }
      if (d.Str("part") == "from-prefixes") { seqx::Explorer<IndexModel> ex(prefixed, args, res, "from-prefixes"); return ex.ReplayFile(d); }
      if (d.Str("part") == "core-deep") { seqx::Explorer<IndexModel> ex(core, args, res, "core-deep"); return ex.ReplayFile(d); }
      seqx::Explorer<IndexModel> ex(empty, args, res, "from-empty"); return ex.ReplayFile(d);
   }
   int depth = args.Thorough() ? 6 : 5, pdepth = args.Thorough() ? 4 : 3, cdepth = args.Thorough() ? 8 : 6;
   uint64_t cap = 6000000;
   if (args.kv.count("depth")) depth = atoi(args.kv["depth"].c_str());
   if (args.kv.count("pdepth")) pdepth = atoi(args.kv["pdepth"].c_str());
   if (args.kv.count("cdepth")) cdepth = atoi(args.kv["cdepth"].c_str());
   if (args.kv.count("cap")) cap = (uint64_t)atoll(args.kv["cap"].c_str());
   const double budget = args.deadline * 0.9;
   if (args.WantPart("from-empty") && depth > 0) {
      seqx::Explorer<IndexModel> ex(empty, args, res, "from-empty");
      ex.SetDeadline(args.t0 + budget * 0.45); ex.SetMaxStates(cap);
      seqx::Stats S = ex.Run(depth);
      res.parts.back().rule = Rule(empty, depth, "from the empty start state");
      fprintf(stderr, "C13 from-empty: states=%llu transitions=%llu depth=%d exhaustive=%d outcomes=%llu violating=%llu wall=%.1fs\n", (unsigned long long)S.states, (unsigned long long)S.transitions, S.depthCompleted, (int)S.exhaustive, (unsigned long long)S.distinctOutcomes, (unsigned long long)S.violations, verif::NowS() - args.t0);
   }
   if (args.WantPart("from-prefixes") && pdepth > 0) {
      seqx::Explorer<IndexModel> ex(prefixed, args, res, "from-prefixes");
      ex.SetDeadline(args.t0 + budget * 0.6); ex.SetMaxStates(cap);
      seqx::Stats S = ex.Run(pdepth);
      res.parts.back().rule = Rule(prefixed, pdepth, "from each of the populated start states (built with the same commands and checked by the same oracle)");
      std::string sn = "["; for (int i = 0; i < prefixed.NumStarts(); i++) { if (i) sn += ", "; sn += verif::JStr(prefixed.StartName(i)); } sn += "]";
      res.parts.back().extra["start_state_names"] = sn;
      fprintf(stderr, "C13 from-prefixes: states=%llu transitions=%llu depth=%d exhaustive=%d outcomes=%llu violating=%llu wall=%.1fs\n", (unsigned long long)S.states, (unsigned long long)S.transitions, S.depthCompleted, (int)S.exhaustive, (unsigned long long)S.distinctOutcomes, (unsigned long long)S.violations, verif::NowS() - args.t0);
   }
   if (args.WantPart("core-deep") && cdepth > 0) {
      seqx::Explorer<IndexModel> ex(core, args, res, "core-deep");
      ex.SetDeadline(args.t0 + budget); ex.SetMaxStates(cap);
      seqx::Stats S = ex.Run(cdepth);
      res.parts.back().rule = Rule(core, cdepth, "from the empty start state, CORE alphabet (the commands listed in extra.core_alphabet; same worlds, same oracle)");
      std::string sn = "["; for (int i = 0; i < core.NumOps(); i++) { if (i) sn += ", "; sn += verif::JStr(core.OpName(i)); } sn += "]";
      res.parts.back().extra["core_alphabet"] = sn;
      fprintf(stderr, "C13 core-deep: states=%llu transitions=%llu depth=%d exhaustive=%d outcomes=%llu violating=%llu wall=%.1fs\n", (unsigned long long)S.states, (unsigned long long)S.transitions, S.depthCompleted, (int)S.exhaustive, (unsigned long long)S.distinctOutcomes, (unsigned long long)S.violations, verif::NowS() - args.t0);
   }
   res.observations.push_back("domain: children are addressed by index position or by the fixed names a, b, x; explicit names of the form I<digits> and the QUIET / REMOVE_QUIETLY flags are never used");
   res.observations.push_back("SETDATA with ADDTOINDEX on an EXISTING child changes nothing at all (neither payload nor index); a child that RestoreNodeTreeFromMessage has to re-create under a still existing parent is appended at the END of the index, not at its saved position (order after these commands is outside the compared domain; replicas still equal the index)");
   res.observations.push_back("a snapshot (GETDATA / new subscription) of a node whose index is empty carries no 'c' instruction; a removed node's index is reported as a sequence of 'r' instructions that arrive AFTER the PR_RESULT_DATAITEMS announcing the node's removal");
   return res.Write(args);
}
