// C17 -- shared definitions of the String harness: operation alphabet, result recorder, position selectors.
#ifndef C17_STRING_DEFS_H
#define C17_STRING_DEFS_H

#include "engines/common/verif.h"
#include "util/String.h"
#include <string>
#include <vector>

typedef std::string Str;

namespace c17 {

using muscle::String;

static const uint32 CAP = (uint32)sizeof(String) - 1;  // inline capacity (checked against String::GetMaxShortStringLength() in main)
static const uint32 NL = MUSCLE_NO_LIMIT;
static const uint32 LIMIT = 4 * CAP + 4;               // states whose s or t is longer than this are checked but not expanded

static inline Str Bytes(const String & s) { return Str(s.Cstr(), s.Length()); }
static inline bool IsHeap(const String & s) { return s.IsArrayDynamicallyAllocated(); }
static inline Str Esc(const Str & b)
{
   Str o = "'";
   for (size_t i = 0; i < b.size() && i < 200; i++) { unsigned char c = (unsigned char)b[i]; if (c >= 0x20 && c < 0x7f && c != '\\' && c != '\'') o += (char)c; else { char t[8]; snprintf(t, sizeof(t), "\\x%02x", c); o += t; } }
   if (b.size() > 200) o += "...";
   return o + "'" + verif::Fmt("[%u]", (unsigned)b.size());
}

// Representation invariant of any String (the receiver, the other variable, every returned String)
static inline bool Inv(const String & s, Str & why)
{
   const uint32 n = s.Length(); const char * p = s.Cstr();
   if (p == NULL) { why = "Cstr() is NULL"; return false; }
   if (s.GetNumAllocatedBytes() < n + 1) { why = verif::Fmt("GetNumAllocatedBytes() %u < Length()+1 = %u", s.GetNumAllocatedBytes(), n + 1); return false; }
   if (!IsHeap(s) && n > CAP) { why = "inline String longer than the inline capacity"; return false; }
   if (p[n] != '\0') { why = verif::Fmt("no NUL at Cstr()[Length()=%u]", n); return false; }
   const size_t sl = strlen(p);
   if (sl != n) { why = verif::Fmt("NUL byte at %u before Length()=%u", (unsigned)sl, n); return false; }
   if (s.IsEmpty() != (n == 0) || s.HasChars() == (n == 0) || s.FlattenedSize() != n + 1 || s.GetLastValidIndex() != (int32)n - 1) { why = "IsEmpty/HasChars/FlattenedSize/GetLastValidIndex inconsistent with Length()"; return false; }
   return true;
}

// ---------------------------------------------------------------- result recorder: one item per API call of the operation
static const char * const SKIP = "\x01?";
struct Out {
   std::vector<const char *> lab, ctx; std::vector<Str> val;
   const char * cur;   // context (e.g. the from-index selector) attached to the following items
   Str inv;            // first invariant failure seen on a returned String
   Out() : cur("") {}
   void Put(const char * l, const Str & v) { lab.push_back(l); ctx.push_back(cur); val.push_back(v); }
   void N(const char * l, long long x) { Put(l, std::to_string(x)); }
   void Sg(const char * l, long long x) { Put(l, x > 0 ? "+" : (x < 0 ? "-" : "0")); }
   void B(const char * l, bool b) { Put(l, b ? "T" : "F"); }
   void Ok(const char * l, const muscle::status_t & r) { Put(l, r.IsOK() ? "ok" : "err"); }
   void S(const char * l, const String & r) { Str why; if (inv.empty() && !Inv(r, why)) inv = Str(l) + ": returned String: " + why; Put(l, "\"" + Bytes(r)); }
   void R(const char * l, const Str & r) { Put(l, "\"" + r); }   // reference side of S
   void Skip(const char * l) { Put(l, SKIP); }                    // reference side: the documentation does not define this answer
   Str Join() const { Str o; for (size_t i = 0; i < val.size(); i++) { o += val[i]; o += '\x02'; } return o; }
};
// index of the first differing item, -1 if none, -2 if the item lists have different shapes (harness bug)
static inline int Diff(const Out & a, const Out & b, bool bIsRef)
{
   if (a.val.size() != b.val.size()) return -2;
   for (size_t i = 0; i < a.val.size(); i++) {
      if (strcmp(a.lab[i], b.lab[i]) != 0) return -2;
      if (bIsRef && b.val[i] == SKIP) continue;
      if (a.val[i] != b.val[i]) return (int)i;
   }
   return -1;
}

// ---------------------------------------------------------------- position selectors, resolved against the current length n of s
enum { P0, P1, PMID, PLAST, PLEN, PLEN1, PCAPM1, PCAP, PCAP1, PNL, PNUM };
static inline uint32 Pos(int sel, uint32 n)
{
   switch (sel) { case P0: return 0; case P1: return 1; case PMID: return n / 2; case PLAST: return n ? n - 1 : 0; case PLEN: return n; case PLEN1: return n + 1;
                  case PCAPM1: return CAP - 1; case PCAP: return CAP; case PCAP1: return CAP + 1; default: return NL; }
}
static inline const char * PosName(int sel) { static const char * nm[] = {"0", "1", "mid", "last", "len", "len+1", "cap-1", "cap", "cap+1", "NO_LIMIT"}; return nm[sel]; }

// from-index sets used by the search bundles
static const int FROMS[] = { P0, P1, PMID, PLAST, PLEN, PLEN1 };   enum { NFROMS = 6 };
static const int CFROMS[] = { P0, PMID, PLAST, PLEN };             enum { NCFROMS = 4 };
static const char SCHARS[] = { 'a', 'B', (char)0xA9 };              enum { NSCHARS = 3 };

// ---------------------------------------------------------------- operand binding
enum { O_NONE, O_T, O_SELF };       // operand = the other variable t / the receiver itself
enum { K0, K1, KMID, KLEN };        // offset of an aliasing C pointer into the receiver's buffer
static inline uint32 KOff(int ksel, uint32 n) { switch (ksel) { case K0: return 0; case K1: return n ? 1 : 0; case KMID: return n / 2; default: return n; } }
static inline const char * KName(int ksel) { static const char * nm[] = {"", "+1", "+mid", "+len"}; return nm[ksel]; }

// literal operands of Replace: index >= 0 -> LIT[index], L_A -> the bound operand A, L_T -> t
static const char * const LIT[] = { "a", "x", "", "bb", "%1", "b" };
enum { LIT_a, LIT_x, LIT_empty, LIT_bb, LIT_tok, LIT_b };
enum { L_A = -1, L_T = -2 };

enum Kind {
   // ---- state-changing
   K_ASSIGN_STR, K_ASSIGN_CSTR, K_SETCSTR_N, K_SETFROM, K_ASSIGN_SUBSTR, K_T_FIX, K_T_FROM_S, K_SWAP, K_MOVE,
   K_APPEND_STR, K_APPEND_CSTR, K_APPEND_CHAR, K_APPENDCHARS_N, K_PREPEND_CSTR, K_WITHPREPEND_STR, K_INSERT_CSTR, K_WITHINSERT_STR,
   K_MINUS_STR, K_MINUS_CSTR, K_MINUS_CHAR, K_DEC, K_REPLACE_CHAR, K_REPLACE_STR, K_TRIM, K_PAD, K_UPPER, K_REVERSE, K_TRUNC_TO, K_CLEAR, K_CLEARFLUSH,
   K_ARG_INT, K_ARG_STR, K_ARG_CSTR, K_PREALLOC, K_SHRINK, K_UNFLATTEN_INTO,
   // ---- read-only bundles (s and t are left unchanged; every API call is one recorded item)
   K_CONSTRUCT, K_WITH_FORMS, K_SUBSTR_FORMS, K_REPL_FORMS, K_CASE_FORMS, K_SEARCH, K_SEARCH_CHAR, K_COMPARE, K_ARG_FORMS, K_NUMERIC, K_PREFIXSUFFIX, K_FLATTEN_RT, K_UNFLATTEN_BAD
};

struct Op { int k; int opnd; int ksel; int p1, p2; Str name; bool mut; };

// fixed operand contents: every length around the inline capacity, bytes over {a, b, B, space, 0xC3 0xA9, "%1"}
static inline Str Gen(uint32 L, int v)
{
   static const char * base[2] = { "ab\xC3\xA9 %1b", " B\xC3\xA9%1a " };
   Str r; const char * b = base[v]; const size_t bl = strlen(b); for (uint32 i = 0; i < L; i++) r += b[i % bl]; return r;
}

}  // namespace c17

#endif
