// C14 -- QueryFilter evaluation vs. the documented semantics (ref/reffilter.h), Message immutability, archive round trip,
// expression strings vs. the documented grammar, and hostile archives.   Engine: MUTX (one case per filter / expression / archive).
//
// Parts (each a complete enumeration of a stated finite set; the sets are tier dependent and named in the part name):
//   leaves          every leaf filter of the generated leaf set (all kinds x operators x operands x index x default x mask op)
//   trees1_rN       every combinator (xor, min-match n, max-match n; n in {0,1,2,inf}) over every tuple of 0..3 leaves from a reduced set of N,
//                   and the Message-filter wrapper around each of them
//   trees2_kK       depth-2 trees: every combinator over every tuple of 0..K children drawn from {3 leaves} U {all depth-1 trees with <=2
//                   children over those 3 leaves} (123 children)
//   expressions_pN  every derivation of the documented expression grammar with <=3 predicates (N = size of the predicate set used for triples)
//   strings         every string of length <=5 over { ( ) ! = & | a 1 " blank }
//   hostile_dD      every archive within D mutations of a valid archive of 27 seed filters
#include "engines/mutx/mutx.h"
#include "ref/reffilter.h"
#include "regex/QueryFilter.h"
#include "regex/StringMatcher.h"
#include "reflector/DataNode.h"
#include "util/ByteBuffer.h"

using namespace muscle;
namespace rf = reffilter;

// ------------------------------------------------------------------------------------------------ counters shared with the forked workers
struct Counters { volatile uint64_t evals, compared, undefinedPairs, roundTrips, exprWell, exprAmbiguous, exprUnspec, exprAcceptedUnspec, hostileOffered, hostileAccepted, hostileEvals; };
static Counters * g_cnt = NULL;
#define ADD(field, n) __sync_fetch_and_add(&g_cnt->field, (uint64_t)(n))

// ------------------------------------------------------------------------------------------------ universe: Messages and node contexts
static std::vector<rf::Msg> g_rmsgs; static std::vector<MessageRef> g_msgs; static std::vector<std::string> g_flat;
static std::vector<rf::Node> g_rnodes; static std::vector<DataNodeRef> g_nodes;   // g_nodes[0] is NULL (no node context)

static std::string MsgText(const rf::Msg & m)
{
   std::string o = verif::Fmt("what=%u", (unsigned)m.what);
   for (size_t i = 0; i < m.fields.size(); i++) { o += " " + m.fields[i].name + "=" + rf::TypeName(m.fields[i].type) + "[";
      for (size_t j = 0; j < m.fields[i].items.size(); j++) { if (j) o += ","; const rf::Val & v = m.fields[i].items[j]; o += (v.type == rf::T_MESSAGE) ? "{" + MsgText(*v.m) + "}" : rf::ValText(v); }
      o += "]"; }
   return o;
}
static std::string FlatOf(const Message & m) { ByteBufferRef b = m.FlattenToByteBuffer(); return b() ? std::string((const char *)b()->GetBuffer(), b()->GetNumBytes()) : std::string("<flatten failed>"); }

static MessageRef ToReal(const rf::Msg & m)
{
   MessageRef r = GetMessageFromPool(m.what);
   for (size_t i = 0; i < m.fields.size(); i++) for (size_t j = 0; j < m.fields[i].items.size(); j++) {
      const rf::Val & v = m.fields[i].items[j]; const String fn = m.fields[i].name.c_str(); status_t st;
      switch (v.type) {
      case rf::T_BOOL:   st = r()->AddBool(fn, v.i != 0); break;
      case rf::T_INT8:   st = r()->AddInt8(fn, (int8)v.i); break;
      case rf::T_INT16:  st = r()->AddInt16(fn, (int16)v.i); break;
      case rf::T_INT32:  st = r()->AddInt32(fn, (int32)v.i); break;
      case rf::T_INT64:  st = r()->AddInt64(fn, (int64)v.i); break;
      case rf::T_FLOAT:  st = r()->AddFloat(fn, (float)v.d[0]); break;
      case rf::T_DOUBLE: st = r()->AddDouble(fn, v.d[0]); break;
      case rf::T_POINT:  st = r()->AddPoint(fn, Point((float)v.d[0], (float)v.d[1])); break;
      case rf::T_RECT:   st = r()->AddRect(fn, Rect((float)v.d[0], (float)v.d[1], (float)v.d[2], (float)v.d[3])); break;
      case rf::T_STRING: st = r()->AddString(fn, v.s.c_str()); break;
      case rf::T_RAW:    st = r()->AddData(fn, B_RAW_TYPE, v.s.data(), (uint32)v.s.size()); break;
      case rf::T_MESSAGE: st = r()->AddMessage(fn, ToReal(*v.m)); break;
      default: st = B_BAD_ARGUMENT; break;
      }
      if (st.IsError()) { fprintf(stderr, "C14: cannot build universe Message (field %s type %s): %s\n", fn(), rf::TypeName(v.type).c_str(), st()); fflush(NULL); _exit(3); }
   }
   return r;
}

struct NumType { uint32_t type; rf::Val v[3]; rf::Val mask; bool maskable; };
static std::vector<NumType> g_numTypes;
static const char * STRV[3] = { "", "ab", "aB" };
static const std::string RAWV[3] = { std::string("\x01\x02", 2), std::string("\x01", 1), std::string("\x02\x01\x02\x03", 4) };

static void BuildUniverse()
{
   using rf::Val;
   NumType t;
   t.type = rf::T_BOOL;   t.v[0] = Val::Bool(false); t.v[1] = Val::Bool(true); t.v[2] = Val::Bool(true); t.mask = Val::Bool(true); t.maskable = true; g_numTypes.push_back(t);
   t.type = rf::T_INT8;   t.v[0] = Val::Int(t.type, -128); t.v[1] = Val::Int(t.type, 0); t.v[2] = Val::Int(t.type, 127); t.mask = Val::Int(t.type, 0x55); g_numTypes.push_back(t);
   t.type = rf::T_INT16;  t.v[0] = Val::Int(t.type, -32768); t.v[1] = Val::Int(t.type, 1); t.v[2] = Val::Int(t.type, 32767); t.mask = Val::Int(t.type, 0x5555); g_numTypes.push_back(t);
   t.type = rf::T_INT32;  t.v[0] = Val::Int(t.type, -2147483647LL - 1); t.v[1] = Val::Int(t.type, 1); t.v[2] = Val::Int(t.type, 2147483647LL); t.mask = Val::Int(t.type, 0x55555555LL); g_numTypes.push_back(t);
   t.type = rf::T_INT64;  t.v[0] = Val::Int(t.type, (-9223372036854775807LL) - 1); t.v[1] = Val::Int(t.type, 1); t.v[2] = Val::Int(t.type, 9223372036854775807LL); t.mask = Val::Int(t.type, 0x5555555555555555LL); g_numTypes.push_back(t);
   t.maskable = false; t.mask = Val();
   t.type = rf::T_FLOAT;  t.v[0] = Val::Flt(t.type, -1.5); t.v[1] = Val::Flt(t.type, 0.0); t.v[2] = Val::Flt(t.type, (double)3.0e38f); g_numTypes.push_back(t);
   t.type = rf::T_DOUBLE; t.v[0] = Val::Flt(t.type, -1.5); t.v[1] = Val::Flt(t.type, 0.0); t.v[2] = Val::Flt(t.type, 1e300); g_numTypes.push_back(t);
   t.type = rf::T_POINT;  t.v[0] = Val::Point(0, 0); t.v[1] = Val::Point(1, -1); t.v[2] = Val::Point(1, 2); g_numTypes.push_back(t);
   t.type = rf::T_RECT;   t.v[0] = Val::Rect(0, 0, 0, 0); t.v[1] = Val::Rect(0, 0, 1, 1); t.v[2] = Val::Rect(1, 2, 3, 4); g_numTypes.push_back(t);

   std::shared_ptr<rf::Msg> sub5(new rf::Msg); sub5->what = 5; sub5->Add("f", Val::Int(rf::T_INT32, 1));
   std::shared_ptr<rf::Msg> sub0(new rf::Msg); sub0->what = 0;
   static const uint32_t WHATS[5] = { 0, 5, 7, 0xFFFFFFFFu, 1 };
   std::vector<std::vector<Val> > perType;
   for (size_t k = 0; k < g_numTypes.size(); k++) perType.push_back(std::vector<Val>(g_numTypes[k].v, g_numTypes[k].v + 3));
   { std::vector<Val> s; for (int k = 0; k < 3; k++) s.push_back(Val::Str(STRV[k])); perType.push_back(s); }
   { std::vector<Val> s; for (int k = 0; k < 3; k++) s.push_back(Val::Raw(RAWV[k])); perType.push_back(s); }
   for (size_t ti = 0; ti < perType.size(); ti++) {
      const std::vector<Val> & v = perType[ti];
      const int shapes[5][2] = { {0, -1}, {1, -1}, {2, -1}, {0, 1}, {2, 0} };
      for (int s = 0; s < 5; s++) {
         rf::Msg m; m.what = WHATS[(g_rmsgs.size()) % 5];
         m.Add("f", v[(size_t)shapes[s][0]]); if (shapes[s][1] >= 0) m.Add("f", v[(size_t)shapes[s][1]]);
         switch (g_rmsgs.size() % 3) { case 0: m.Add("m", Val::Sub(sub5)); break; case 1: m.Add("m", Val::Sub(sub0)); m.Add("m", Val::Sub(sub5)); break; default: break; }
         g_rmsgs.push_back(m);
      }
   }
   { rf::Msg m; g_rmsgs.push_back(m); }                                               // empty Message
   { rf::Msg m; m.what = 5; m.Add("m", Val::Sub(sub0)); g_rmsgs.push_back(m); }       // only a sub-Message
   { rf::Msg m; m.what = 6; m.Add("f", Val::Sub(sub5)); g_rmsgs.push_back(m); }       // f is itself a Message field
   { rf::Msg m; m.what = 2; m.Add("f", Val::Str("b")); m.Add("f", Val::Str("ab")); m.Add("g", Val::Int(rf::T_INT32, 1)); g_rmsgs.push_back(m); }
   for (size_t i = 0; i < g_rmsgs.size(); i++) { g_msgs.push_back(ToReal(g_rmsgs[i])); g_flat.push_back(FlatOf(*g_msgs[i]())); }

   // node contexts: none, "ab" without children, "aB1" with two children
   { rf::Node n; g_rnodes.push_back(n); g_nodes.push_back(DataNodeRef()); }
   { rf::Node n; n.present = true; n.name = "ab"; n.childCount = 0; g_rnodes.push_back(n); DataNodeRef d(new DataNode); d()->Init("ab", GetMessageFromPool(1)); g_nodes.push_back(d); }
   { rf::Node n; n.present = true; n.name = "aB1"; n.childCount = 2; g_rnodes.push_back(n); DataNodeRef d(new DataNode); d()->Init("aB1", GetMessageFromPool(2));
     for (int k = 0; k < 2; k++) { DataNodeRef c(new DataNode); c()->Init(k ? "c2" : "c1", GetMessageFromPool(3)); if (d()->PutChild(c, NULL, NULL).IsError()) { fprintf(stderr, "C14: PutChild failed\n"); fflush(NULL); _exit(3); } }
     if (d()->GetNumChildren() != 2 || d()->GetNodeName() != "aB1") { fprintf(stderr, "C14: DataNode context not as built\n"); fflush(NULL); _exit(3); }
     g_nodes.push_back(d); }
}

// ------------------------------------------------------------------------------------------------ reference tree -> real filter
template <class QF, typename T, typename Conv> static QueryFilterRef BuildNumT(const rf::Filter & f, Conv conv)
{
   QF * q = f.hasDef ? new QF(f.field.c_str(), (uint8)f.op, conv(f.value), f.idx, conv(f.def)) : new QF(f.field.c_str(), (uint8)f.op, conv(f.value), f.idx);
   if (f.maskOp) q->SetMask((uint8)f.maskOp, conv(f.mask));
   return QueryFilterRef(q);
}
static bool   CvBool(const rf::Val & v) { return v.i != 0; }
static int8   CvI8(const rf::Val & v) { return (int8)v.i; }
static int16  CvI16(const rf::Val & v) { return (int16)v.i; }
static int32  CvI32(const rf::Val & v) { return (int32)v.i; }
static int64  CvI64(const rf::Val & v) { return (int64)v.i; }
static float  CvF(const rf::Val & v) { return (float)v.d[0]; }
static double CvD(const rf::Val & v) { return v.d[0]; }
static Point  CvP(const rf::Val & v) { return Point((float)v.d[0], (float)v.d[1]); }
static Rect   CvR(const rf::Val & v) { return Rect((float)v.d[0], (float)v.d[1], (float)v.d[2], (float)v.d[3]); }

static QueryFilterRef Build(const rf::Filter & f)
{
   switch (f.kind) {
   case rf::K_WHAT:   return QueryFilterRef(new WhatCodeQueryFilter(f.minWhat, f.maxWhat));
   case rf::K_EXISTS: return QueryFilterRef(new ValueExistsQueryFilter(f.field.c_str(), f.type, f.idx));
   case rf::K_NUM:
      switch (f.type) {
      case rf::T_BOOL:   return BuildNumT<BoolQueryFilter, bool>(f, CvBool);
      case rf::T_INT8:   return BuildNumT<Int8QueryFilter, int8>(f, CvI8);
      case rf::T_INT16:  return BuildNumT<Int16QueryFilter, int16>(f, CvI16);
      case rf::T_INT32:  return BuildNumT<Int32QueryFilter, int32>(f, CvI32);
      case rf::T_INT64:  return BuildNumT<Int64QueryFilter, int64>(f, CvI64);
      case rf::T_FLOAT:  return BuildNumT<FloatQueryFilter, float>(f, CvF);
      case rf::T_DOUBLE: return BuildNumT<DoubleQueryFilter, double>(f, CvD);
      case rf::T_POINT:  return BuildNumT<PointQueryFilter, Point>(f, CvP);
      case rf::T_RECT:   return BuildNumT<RectQueryFilter, Rect>(f, CvR);
      }
      return QueryFilterRef();
   case rf::K_CHILDCOUNT: { ChildCountQueryFilter * q = new ChildCountQueryFilter((uint8)f.op, (int32)f.value.i); if (f.maskOp) q->SetMask((uint8)f.maskOp, (int32)f.mask.i); return QueryFilterRef(q); }
   case rf::K_STRING: return QueryFilterRef(f.hasDef ? new StringQueryFilter(f.field.c_str(), (uint8)f.op, f.value.s.c_str(), f.idx, f.def.s.c_str()) : new StringQueryFilter(f.field.c_str(), (uint8)f.op, f.value.s.c_str(), f.idx));
   case rf::K_NODENAME: return QueryFilterRef(new NodeNameQueryFilter((uint8)f.op, f.value.s.c_str()));
   case rf::K_RAW: {
      ConstByteBufferRef val; if (f.hasValue) val = GetByteBufferFromPool((uint32)f.value.s.size(), (const uint8 *)f.value.s.data());
      if (!f.hasDef) return QueryFilterRef(new RawDataQueryFilter(f.field.c_str(), (uint8)f.op, val, f.type, f.idx));
      ConstByteBufferRef def = GetByteBufferFromPool((uint32)f.def.s.size(), (const uint8 *)f.def.s.data());
      return QueryFilterRef(new RawDataQueryFilter(f.field.c_str(), (uint8)f.op, val, f.type, f.idx, def)); }
   case rf::K_MESSAGE: {
      ConstQueryFilterRef kid; if (!f.kids.empty()) kid = Build(*f.kids[0]);
      ConstMessageRef dm; if (f.defMsg) dm = ToReal(*f.defMsg);
      return QueryFilterRef(new MessageQueryFilter(kid, dm, f.field.c_str(), f.idx)); }
   case rf::K_MIN: case rf::K_MAX: case rf::K_XOR: {
      MultiQueryFilter * q;
      if (f.kind == rf::K_XOR) q = new XorQueryFilter;
      else if (f.kind == rf::K_MIN) q = (f.n == rf::NO_LIMIT) ? (MultiQueryFilter *)new AndQueryFilter : (f.n == 0) ? (MultiQueryFilter *)new OrQueryFilter : (MultiQueryFilter *)new MinimumThresholdQueryFilter(f.n);
      else q = (f.n == rf::NO_LIMIT) ? (MultiQueryFilter *)new NandQueryFilter : (f.n == 0) ? (MultiQueryFilter *)new NorQueryFilter : (MultiQueryFilter *)new MaximumThresholdQueryFilter(f.n);
      QueryFilterRef r(q);
      for (size_t i = 0; i < f.kids.size(); i++) (void)q->GetChildren().AddTail(Build(*f.kids[i]));
      return r; }
   }
   return QueryFilterRef();
}

// stable classification of a reference filter for violation keys
static std::string KindKey(const rf::Filter & f)
{
   switch (f.kind) {
   case rf::K_WHAT: return "whatcode";
   case rf::K_EXISTS: return "valueexists";
   case rf::K_NUM: return rf::TypeName(f.type) + verif::Fmt(":op%d", f.op) + (f.maskOp ? verif::Fmt(":mop%d", f.maskOp) : "") + (f.hasDef ? ":default" : "");
   case rf::K_CHILDCOUNT: return verif::Fmt("childcount:op%d", f.op);
   case rf::K_STRING: return verif::Fmt("string:op%d", f.op) + (f.hasDef ? ":default" : "");
   case rf::K_NODENAME: return verif::Fmt("nodename:op%d", f.op);
   case rf::K_RAW: return verif::Fmt("rawdata:op%d", f.op) + (f.hasDef ? (f.def.s.empty() ? ":empty-default" : ":default") : "") + (f.hasValue && f.value.s.empty() ? ":empty-value" : "");
   case rf::K_MESSAGE: return std::string("message") + (f.kids.empty() ? "" : ":child") + (f.defMsg ? ":defmsg" : "");
   case rf::K_MIN: return f.n == rf::NO_LIMIT ? "and" : f.n == 0 ? "or" : verif::Fmt("min-match(%u)", (unsigned)f.n);
   case rf::K_MAX: return f.n == rf::NO_LIMIT ? "nand" : f.n == 0 ? "nor" : verif::Fmt("max-match(%u)", (unsigned)f.n);
   case rf::K_XOR: return "xor";
   }
   return "?";
}

// ------------------------------------------------------------------------------------------------ the oracle shared by all filter parts
// Evaluates q on every (Message, node context); returns the decision string.  With ref != NULL compares with the reference.
static std::string Decide(const QueryFilter & q, const rf::Filter * ref, mutx::Case & c, const std::string & what, const std::string & kk, const std::string & descr)
{
   const size_t NM = g_msgs.size(), NN = g_nodes.size(); std::string bits(NM * NN, '0'); uint64_t cmp = 0, undef = 0;
   for (size_t k = 0; k < NM; k++) for (size_t j = 0; j < NN; j++) {
      ConstMessageRef m = g_msgs[k];
      const bool a = q.Matches(m, g_nodes[j]());
      if (a) bits[k * NN + j] = '1';
      if (ref) {
         bool u = false; const bool r = rf::Eval(*ref, g_rmsgs[k], g_rnodes[j], u);
         if (u) undef++; else { cmp++; if (a != r && !c.failed) c.Fail(what + ":" + kk, descr + verif::Fmt(": Message #%llu (%s) node context #%llu: documented semantics say %s, Matches() returned %s", (unsigned long long)k, MsgText(g_rmsgs[k]).c_str(), (unsigned long long)j, r ? "match" : "no match", a ? "true" : "false")); }
      }
   }
   ADD(evals, NM * NN); ADD(compared, cmp); ADD(undefinedPairs, undef);
   return bits;
}
static void CheckUnmodified(mutx::Case & c, const std::string & kk, const std::string & descr)
{
   for (size_t k = 0; k < g_msgs.size(); k++) if (FlatOf(*g_msgs[k]()) != g_flat[k]) { c.Fail("message-modified:" + kk, descr + verif::Fmt(": evaluation changed the bytes of Message #%llu", (unsigned long long)k)); return; }
}
// SaveToArchive -> Flatten -> Unflatten -> factory -> identical decisions (+ IsEqualTo both ways when wantEqual)
static void RoundTrip(const QueryFilter & q, const std::string & bits, bool wantEqual, mutx::Case & c, const std::string & prefix, const std::string & kk, const std::string & descr, bool viaBytes = true)
{
   Message arch; status_t st = q.SaveToArchive(arch);
   if (st.IsError()) { c.Fail(prefix + "save-failed:" + kk, descr + ": SaveToArchive failed: " + st()); return; }
   Message arch2;
   if (viaBytes) { ByteBufferRef bb = arch.FlattenToByteBuffer(); if (bb() == NULL || arch2.UnflattenFromByteBuffer(*bb()).IsError()) { c.Fail(prefix + "flatten-trip-failed:" + kk, descr + ": the archive Message does not survive Flatten/Unflatten"); return; } }
   QueryFilterRef q2 = GetGlobalQueryFilterFactory()()->CreateQueryFilter(viaBytes ? arch2 : arch);
   if (q2() == NULL) { c.Fail(prefix + "rejected:" + kk, descr + ": the factory rejects the filter's own archive"); return; }
   mutx::Case dummy; const std::string bits2 = Decide(*q2(), NULL, dummy, "", "", "");
   if (bits2 != bits) { size_t p = 0; while (p < bits.size() && bits[p] == bits2[p]) p++;
      c.Fail(prefix + "decides-differently:" + kk, descr + verif::Fmt(": the restored filter decides differently on Message #%llu node context #%llu (original %c, restored %c)", (unsigned long long)(p / g_nodes.size()), (unsigned long long)(p % g_nodes.size()), bits[p], bits2[p])); return; }
   if (wantEqual && !(q2()->IsEqualTo(q) && q.IsEqualTo(*q2()))) c.Fail(prefix + "not-equal:" + kk, descr + ": the restored filter is not IsEqualTo() the original");
   ADD(roundTrips, 1);
}
static void CheckFilter(const rf::Filter & f, mutx::Case & c)
{
   const std::string kk = KindKey(f), descr = rf::Describe(f);
   QueryFilterRef q = Build(f); if (q() == NULL) { c.Fail("harness:cannot-build", descr); return; }
   const std::string bits = Decide(*q(), &f, c, "eval-mismatch", kk, descr);
   CheckUnmodified(c, kk, descr);
   // a zero-length (non-NULL) raw value is archived as "no value": both forms never match, so only the representation differs (observation, not compared)
   const bool wantEqual = !(f.kind == rf::K_RAW && f.hasValue && f.value.s.empty());
   RoundTrip(*q(), bits, wantEqual, c, "archive-", kk, descr);
   const verif::Hash128 h = verif::HashStr(bits); c.Outcome(verif::Fmt("%016llx%016llx", (unsigned long long)h.a, (unsigned long long)h.b));
}

// ------------------------------------------------------------------------------------------------ leaf set
static std::vector<rf::FilterPtr> g_leaves;
static void BuildLeaves()
{
   using namespace rf;
   static const uint32_t WH[5][2] = { {0, 0}, {5, 5}, {1, 7}, {7, 1}, {0, 0xFFFFFFFFu} };
   for (int i = 0; i < 5; i++) g_leaves.push_back(MkWhat(WH[i][0], WH[i][1]));
   static const char * FN[2] = { "f", "z" }; static const uint32_t ET[3] = { T_ANY, T_INT32, T_STRING };
   for (int a = 0; a < 2; a++) for (int b = 0; b < 3; b++) for (uint32_t idx = 0; idx < 2; idx++) g_leaves.push_back(MkExists(FN[a], ET[b], idx));
   for (size_t t = 0; t < g_numTypes.size(); t++) { const NumType & nt = g_numTypes[t];
      static const int MOPS[3] = { MOP_NONE, MOP_AND, MOP_XOR };
      for (int op = 0; op < NUM_CMP_OPS; op++) for (int v = 0; v < 3; v++) for (uint32_t idx = 0; idx < 2; idx++) for (int d = 0; d < 2; d++) for (int mo = 0; mo < (nt.maskable ? 3 : 1); mo++) {
         FilterPtr f = MkNum(nt.type, "f", op, nt.v[v], idx); if (d) { f->hasDef = true; f->def = nt.v[1]; } if (mo) { f->maskOp = MOPS[mo]; f->mask = nt.mask; } g_leaves.push_back(f); } }
   static const char * SGEN[3] = { "", "ab", "B" }, * SWILD[3] = { "a*", "ab", "?B" }, * SREGEX[3] = { "^a.*$", "^ab$", "^.B$" };
   for (int op = 0; op < NUM_STRING_OPS; op++) for (int v = 0; v < 3; v++) {
      const char * val = (op == SOP_WILDCARD || op == SOP_WILDCARD_IC) ? SWILD[v] : (op == SOP_REGEX || op == SOP_REGEX_IC) ? SREGEX[v] : SGEN[v];
      for (uint32_t idx = 0; idx < 2; idx++) for (int d = 0; d < 2; d++) { FilterPtr f = MkString("f", op, val, idx); if (d) { f->hasDef = true; f->def = Val::Str("ab"); } g_leaves.push_back(f); }
      { FilterPtr f = MkString("", op, val, 0); f->kind = K_NODENAME; g_leaves.push_back(f); } }
   for (int op = 0; op < NUM_CMP_OPS; op++) for (int v = 0; v < 3; v++) { FilterPtr f = MkNum(T_INT32, "", op, Val::Int(T_INT32, v), 0); f->kind = K_CHILDCOUNT; g_leaves.push_back(f); }
   for (int op = 0; op < NUM_RAW_OPS; op++) for (int v = 0; v < 3; v++) for (int ty = 0; ty < 2; ty++) for (uint32_t idx = 0; idx < 2; idx++) for (int d = 0; d < 3; d++) {
      FilterPtr f(new Filter); f->kind = K_RAW; f->field = "f"; f->op = op; f->value = Val::Raw(RAWV[v]); f->type = ty ? T_RAW : T_ANY; f->idx = idx;
      if (d) { f->hasDef = true; f->def = Val::Raw(d == 1 ? RAWV[0] : std::string()); } g_leaves.push_back(f); }
   { FilterPtr f(new Filter); f->kind = K_RAW; f->field = "f"; f->op = OP_NE; f->hasValue = false; f->type = T_ANY; g_leaves.push_back(f); }                    // NULL value
   { FilterPtr f(new Filter); f->kind = K_RAW; f->field = "f"; f->op = OP_EQ; f->value = Val::Raw(""); f->type = T_RAW; g_leaves.push_back(f); }                 // zero-length value
   std::shared_ptr<Msg> dm(new Msg); dm->what = 5; dm->Add("f", Val::Int(T_INT32, 1));
   for (uint32_t idx = 0; idx < 2; idx++) for (int ch = 0; ch < 3; ch++) for (int d = 0; d < 2; d++) {
      FilterPtr f(new Filter); f->kind = K_MESSAGE; f->field = "m"; f->idx = idx;
      if (ch == 1) f->kids.push_back(MkWhat(5, 5)); else if (ch == 2) f->kids.push_back(MkNum(T_INT32, "f", OP_EQ, Val::Int(T_INT32, 1), 0));
      if (d) f->defMsg = dm; g_leaves.push_back(f); }
}

// reduced leaf sets for the tree parts (diverse truth patterns over the universe; one of each family first)
static std::vector<rf::FilterPtr> Reduced(int n)
{
   using namespace rf; std::vector<FilterPtr> r;
   r.push_back(MkNum(T_INT32, "f", OP_EQ, Val::Int(T_INT32, 1), 0));
   { FilterPtr f = MkString("f", SOP_STARTS_WITH, "a", 0); f->hasDef = true; f->def = Val::Str("ab"); r.push_back(f); }
   r.push_back(MkWhat(5, 5));
   if (n <= 3) return r;
   r.push_back(MkExists("f", T_ANY, 1));
   { FilterPtr f(new Filter); f->kind = K_MESSAGE; f->field = "m"; f->idx = 0; f->kids.push_back(MkWhat(5, 5)); r.push_back(f); }
   { FilterPtr f = MkString("", OP_EQ, "ab", 0); f->kind = K_NODENAME; r.push_back(f); }
   { FilterPtr f = MkNum(T_INT32, "", OP_GT, Val::Int(T_INT32, 0), 0); f->kind = K_CHILDCOUNT; r.push_back(f); }
   { FilterPtr f(new Filter); f->kind = K_RAW; f->field = "f"; f->op = ROP_STARTS_WITH; f->value = Val::Raw(RAWV[1]); f->type = T_RAW; r.push_back(f); }
   { FilterPtr f = MkNum(T_INT8, "f", OP_GT, Val::Int(T_INT8, 0), 0); f->maskOp = MOP_AND; f->mask = Val::Int(T_INT8, 0x55); f->hasDef = true; f->def = Val::Int(T_INT8, 127); r.push_back(f); }
   r.push_back(MkNum(T_DOUBLE, "f", OP_LE, Val::Flt(T_DOUBLE, 0.0), 1));
   if (n <= 10) return r;
   r.push_back(MkString("f", SOP_WILDCARD, "a*", 0));
   r.push_back(MkNum(T_BOOL, "f", OP_NE, Val::Bool(true), 0));
   r.push_back(MkNum(T_POINT, "f", OP_LT, Val::Point(1, 2), 0));
   r.push_back(MkWhat(1, 7));
   r.push_back(MkString("f", SOP_CONTAINS + SOP_IGNORECASE_BASE, "B", 1));
   r.push_back(MkNum(T_INT64, "f", OP_GE, Val::Int(T_INT64, 1), 0));
   return r;
}
struct Comb { rf::Kind k; uint32_t n; };
static const Comb COMBS[9] = { {rf::K_XOR, 0}, {rf::K_MIN, 0}, {rf::K_MIN, 1}, {rf::K_MIN, 2}, {rf::K_MIN, rf::NO_LIMIT}, {rf::K_MAX, 0}, {rf::K_MAX, 1}, {rf::K_MAX, 2}, {rf::K_MAX, rf::NO_LIMIT} };
static uint64_t TupleCount(uint64_t base, int maxLen) { uint64_t t = 0, c = 1; for (int l = 0; l <= maxLen; l++) { t += c; c *= base; } return t; }
static void TupleDecode(uint64_t i, uint64_t base, std::vector<size_t> & out) { uint64_t cnt = 1; int len = 0; while (i >= cnt) { i -= cnt; cnt *= base; len++; } out.assign((size_t)len, 0); for (int k = len - 1; k >= 0; k--) { out[(size_t)k] = (size_t)(i % base); i /= base; } }
// all trees over `pool`: 9 combinators x tuples of 0..maxKids, then the Message wrapper around each pool member
static uint64_t TreeCount(size_t pool, int maxKids) { return 9 * TupleCount(pool, maxKids) + pool; }
static rf::FilterPtr TreeDecode(uint64_t i, const std::vector<rf::FilterPtr> & pool, int maxKids)
{
   const uint64_t tc = TupleCount(pool.size(), maxKids);
   if (i >= 9 * tc) { rf::FilterPtr f(new rf::Filter); f->kind = rf::K_MESSAGE; f->field = "m"; f->idx = 0; f->kids.push_back(pool[(size_t)(i - 9 * tc)]); return f; }
   rf::FilterPtr f = rf::MkMulti(COMBS[i / tc].k, COMBS[i / tc].n); std::vector<size_t> t; TupleDecode(i % tc, pool.size(), t);
   for (size_t k = 0; k < t.size(); k++) f->kids.push_back(pool[t[k]]);
   return f;
}
static std::vector<rf::FilterPtr> g_pool1, g_pool2, g_pool3;
static void BuildPool(std::vector<rf::FilterPtr> & pool, size_t nLeaves) { std::vector<rf::FilterPtr> r = Reduced(3); r.resize(nLeaves); pool = r; const uint64_t n = TreeCount(nLeaves, 2); for (uint64_t i = 0; i < n; i++) pool.push_back(TreeDecode(i, r, 2)); }

static void LeafCase(size_t i, mutx::Case & c) { CheckFilter(*g_leaves[i], c); }
static std::string LeafDesc(size_t i) { return "{\"filter\": " + verif::JStr(rf::Describe(*g_leaves[i])) + "}"; }
static void Tree1Case(size_t i, mutx::Case & c) { CheckFilter(*TreeDecode(i, g_pool1, 3), c); }
static std::string Tree1Desc(size_t i) { return "{\"filter\": " + verif::JStr(rf::Describe(*TreeDecode(i, g_pool1, 3))) + "}"; }
static void Tree2Case(size_t i, mutx::Case & c) { CheckFilter(*TreeDecode(i, g_pool2, 2), c); }
static std::string Tree2Desc(size_t i) { return "{\"filter\": " + verif::JStr(rf::Describe(*TreeDecode(i, g_pool2, 2))) + "}"; }
static void Tree3Case(size_t i, mutx::Case & c) { CheckFilter(*TreeDecode(i, g_pool3, 3), c); }
static std::string Tree3Desc(size_t i) { return "{\"filter\": " + verif::JStr(rf::Describe(*TreeDecode(i, g_pool3, 3))) + "}"; }

// ------------------------------------------------------------------------------------------------ expressions
static std::vector<std::string> g_exprs;
static void BuildExpressions(int p3n)
{
   std::vector<std::string> p1, p2, p3;
   static const char * NUMOPS[9] = { "==", "<", ">", "<=", ">=", "!=", "is", "equals", "=" };
   for (int i = 0; i < 9; i++) p1.push_back(std::string("f ") + NUMOPS[i] + " 1");
   static const char * CASTS[8] = { "(int8)1", "(int16)1", "(int32)1", "(int64)1", "(float)1", "(double)1", "(bool)true", "(string)ab" };
   for (int i = 0; i < 8; i++) { p1.push_back(std::string("f == ") + CASTS[i]); p1.push_back(std::string("f >= ") + CASTS[i]); p1.push_back(std::string("f:1 < ") + CASTS[i]); }
   static const char * INFER[10] = { "false", "true", "0f", "1.5f", "-1.5f", "0.0", "-1.5", "\"ab\"", "ab", "-128" };
   for (int i = 0; i < 10; i++) { p1.push_back(std::string("f == ") + INFER[i]); p1.push_back(std::string("f > ") + INFER[i]); }
   static const char * SOPS[14] = { "==", "<", ">", "<=", ">=", "!=", "startswith", "endswith", "contains", "isstartof", "isendof", "issubstringof", "matches", "matchesregex" };
   static const char * SVALS[3] = { "\"ab\"", "a", "(string)aB" };
   for (int i = 0; i < 14; i++) for (int v = 0; v < 3; v++) p1.push_back(std::string("f ") + SOPS[i] + " " + (i == 12 ? (v == 0 ? "\"a*\"" : v == 1 ? "a?" : "(string)?B") : i == 13 ? "\"^a.*$\"" : SVALS[v]));
   // keyword-looking words that are QUOTED or cast to string are strings (the inference rule applies to bare words only)
   static const char * KWSTR[6] = { "f == \"true\"", "f != \"false\"", "f == (string)true", "f startswith \"true\"", "f == \"1\"", "f == (string)1.5" };
   for (int i = 0; i < 6; i++) p1.push_back(KWSTR[i]);
   static const char * FIELDS[8] = { "f:0 >= 1", "f:1 >= 1", "f:2 >= 1", "f|1 <= 1", "f:1|1 <= 1", "z|0.5f >= 0.5f", "f:1|ab startswith \"a\"", "z|ab == (string)ab" };
   for (int i = 0; i < 8; i++) p1.push_back(FIELDS[i]);
   static const char * EX[7] = { "exists f", "exists (int32)f", "exists (string)f", "exists f:1", "exists (int32)f:1", "exists z", "exists (bool)f" };
   for (int i = 0; i < 7; i++) p1.push_back(EX[i]);
   static const char * WH[10] = { "what == 5", "what != 5", "what < 5", "what > 5", "what <= 5", "what >= 5", "what < 0", "what == 0", "what is 1", "what >= (int32)7" };
   for (int i = 0; i < 10; i++) p1.push_back(WH[i]);
   static const char * P2[12] = { "f == 1", "f startswith \"a\"", "what == 5", "exists f:1", "f:1 >= (int8)0", "f|true == true", "f != \"ab\"", "f <= 0.0", "what > 1", "exists (string)f", "f matches \"a*\"", "f > 0f" };
   for (int i = 0; i < 12; i++) p2.push_back(P2[i]);
   for (int i = 0; i < p3n && i < 12; i++) p3.push_back(P2[i]);
   rf::Generate(p1, p2, p3, g_exprs);
}
static const char SIGMA_E[] = "()!=&|a1\" ";
static std::string StrOfIndex(uint64_t i, const char * sigma, int n)
{
   uint64_t cnt = 1; int len = 0; while (i >= cnt) { i -= cnt; cnt *= (uint64_t)n; len++; }
   std::string s((size_t)len, ' '); for (int k = len - 1; k >= 0; k--) { s[(size_t)k] = sigma[i % (uint64_t)n]; i /= (uint64_t)n; } return s;
}
static std::string ExprFeature(const std::string & raw)
{
   std::string e; bool inq = false; for (size_t i = 0; i < raw.size(); i++) { if (raw[i] == '"') { inq = !inq; e += '"'; } else if (!inq) e += raw[i]; }   // quoted text removed
   const bool conj = e.find("&&") != std::string::npos || e.find("||") != std::string::npos || e.find('^') != std::string::npos || e.find(" and ") != std::string::npos || e.find(" or ") != std::string::npos || e.find(" xor ") != std::string::npos;
   if (!conj && e.find("((") != std::string::npos && e.find("))") != std::string::npos && e.find("((") + 2 < e.size() && e[e.find("((") + 2] != 'i' && e[e.find("((") + 2] != 'b' && e[e.find("((") + 2] != 'f' && e[e.find("((") + 2] != 'd' && e[e.find("((") + 2] != 's') return "redundant-parentheses";
   if (!conj && e.compare(0, 2, "((") == 0 && e.size() > 4 && e.compare(e.size() - 2, 2, "))") == 0) return "redundant-parentheses";
   for (size_t i = 0; i + 1 < e.size(); i++) if (e[i] == ':' && isdigit((unsigned char)e[i + 1])) return "field-index";
   for (size_t i = 1; i + 1 < e.size(); i++) if (e[i] == '|' && e[i + 1] != '|' && e[i - 1] != '|') return "field-default";
   if (e.find("exists ") != std::string::npos) return "exists";
   if (e.find("what ") != std::string::npos) return "what";
   if (conj) return "conjunction";
   if (e.find('!') != std::string::npos && e.find("!=") == std::string::npos) return "negation";
   if (e.find("not ") != std::string::npos) return "negation";
   static const char * sops[] = { "startswith", "endswith", "contains", "isstartof", "isendof", "issubstringof", "matches", NULL };
   for (int k = 0; sops[k]; k++) if (e.find(sops[k]) != std::string::npos) return "string-op";
   if (e.find("(int") != std::string::npos || e.find("(bool)") != std::string::npos || e.find("(float)") != std::string::npos || e.find("(double)") != std::string::npos || e.find("(string)") != std::string::npos) return "cast";
   if (e.find(" is ") != std::string::npos || e.find(" equals ") != std::string::npos || e.find(" = ") != std::string::npos) return "synonym";
   return "plain";
}
static void ExprCheck(const std::string & e, mutx::Case & c)
{
   rf::FilterPtr ref; const rf::ParseClass cls = rf::Parse(e, ref);
   ConstQueryFilterRef q = CreateQueryFilterFromExpression(e.c_str());
   const std::string feat = ExprFeature(e), descr = "expression " + verif::JStr(e);
   if (cls == rf::WELL) ADD(exprWell, 1); else if (cls == rf::AMBIGUOUS) ADD(exprAmbiguous, 1); else { ADD(exprUnspec, 1); if (q()) ADD(exprAcceptedUnspec, 1); }
   if (cls == rf::AMBIGUOUS && q()) c.Fail("expression-ambiguous-accepted", descr + ": operators are mixed without parentheses (documented as an error) but a filter was returned");
   if (cls == rf::WELL && q() == NULL) c.Fail("expression-rejected:" + feat, descr + " is in the documented grammar (denotes " + rf::Describe(*ref) + ") but CreateQueryFilterFromExpression returned NULL: " + q.GetStatus()());
   std::string bits = "null";
   if (q()) {
      bits = Decide(*q(), (cls == rf::WELL) ? ref.get() : NULL, c, "expression-differs", feat, descr + ((cls == rf::WELL) ? " (denotes " + rf::Describe(*ref) + ")" : ""));
      CheckUnmodified(c, "expression", descr);
      RoundTrip(*q(), bits, true, c, "expression-archive-", feat, descr);
   }
   const verif::Hash128 h = verif::HashStr(bits); c.Outcome(verif::Fmt("%d:%016llx%016llx", (int)cls, (unsigned long long)h.a, (unsigned long long)h.b));
}
static void ExprCase(size_t i, mutx::Case & c) { ExprCheck(g_exprs[i], c); }
static std::string ExprDesc(size_t i) { rf::FilterPtr r; const rf::ParseClass cls = rf::Parse(g_exprs[i], r); return "{\"expression\": " + verif::JStr(g_exprs[i]) + ", \"denotes\": " + verif::JStr(cls == rf::WELL ? rf::Describe(*r) : cls == rf::AMBIGUOUS ? "ERROR (ambiguous, documented)" : "unspecified") + "}"; }
static void StrCase(size_t i, mutx::Case & c) { ExprCheck(StrOfIndex(i, SIGMA_E, 10), c); }
static std::string StrDesc(size_t i) { const std::string e = StrOfIndex(i, SIGMA_E, 10); rf::FilterPtr r; const rf::ParseClass cls = rf::Parse(e, r); return "{\"expression\": " + verif::JStr(e) + ", \"denotes\": " + verif::JStr(cls == rf::WELL ? rf::Describe(*r) : "unspecified") + "}"; }

// ------------------------------------------------------------------------------------------------ hostile archives
static std::vector<std::string> g_seedFlat, g_seedName;
static void BuildSeeds()
{
   using namespace rf; std::vector<FilterPtr> s; std::vector<FilterPtr> r = Reduced(10);
   s.push_back(MkWhat(1, 7)); s.push_back(MkExists("f", T_INT32, 1));
   for (size_t t = 0; t < g_numTypes.size(); t++) { FilterPtr f = MkNum(g_numTypes[t].type, "f", OP_GE, g_numTypes[t].v[1], 1); if (t & 1) { f->hasDef = true; f->def = g_numTypes[t].v[2]; } s.push_back(f); }
   { FilterPtr f = MkNum(T_INT32, "f", OP_EQ, Val::Int(T_INT32, 1), 0); f->maskOp = MOP_AND; f->mask = Val::Int(T_INT32, 0x55); f->hasDef = true; f->def = Val::Int(T_INT32, 3); s.push_back(f); }
   { FilterPtr f = MkString("f", SOP_WILDCARD, "a*", 0); s.push_back(f); }
   { FilterPtr f = MkString("f", SOP_REGEX, "^a.*$", 1); f->hasDef = true; f->def = Val::Str("ab"); s.push_back(f); }
   { FilterPtr f = MkString("", SOP_ENDS_WITH, "b", 0); f->kind = K_NODENAME; s.push_back(f); }
   { FilterPtr f = MkNum(T_INT32, "", OP_GT, Val::Int(T_INT32, 0), 0); f->kind = K_CHILDCOUNT; s.push_back(f); }
   { FilterPtr f(new Filter); f->kind = K_RAW; f->field = "f"; f->op = ROP_CONTAINS; f->value = Val::Raw(RAWV[1]); f->type = T_ANY; s.push_back(f); }
   { FilterPtr f(new Filter); f->kind = K_RAW; f->field = "f"; f->op = OP_LT; f->value = Val::Raw(RAWV[0]); f->type = T_RAW; f->idx = 1; f->hasDef = true; f->def = Val::Raw(RAWV[2]); s.push_back(f); }
   { FilterPtr f(new Filter); f->kind = K_MESSAGE; f->field = "m"; s.push_back(f); }
   { FilterPtr f(new Filter); f->kind = K_MESSAGE; f->field = "m"; f->idx = 1; f->kids.push_back(r[0]); std::shared_ptr<Msg> dm(new Msg); dm->what = 5; dm->Add("f", Val::Int(T_INT32, 1)); f->defMsg = dm; s.push_back(f); }
   { FilterPtr f = MkMulti(K_MIN, 1); f->kids.push_back(r[0]); f->kids.push_back(r[1]); f->kids.push_back(r[2]); s.push_back(f); }
   { FilterPtr f = MkMulti(K_MAX, 1); f->kids.push_back(r[0]); f->kids.push_back(r[1]); f->kids.push_back(r[2]); s.push_back(f); }
   { FilterPtr f = MkMulti(K_MIN, NO_LIMIT); f->kids.push_back(r[0]); f->kids.push_back(r[2]); s.push_back(f); }
   { FilterPtr f = MkMulti(K_MIN, 0); f->kids.push_back(r[1]); f->kids.push_back(r[2]); s.push_back(f); }
   { FilterPtr f = MkMulti(K_MAX, NO_LIMIT); f->kids.push_back(r[0]); f->kids.push_back(r[1]); s.push_back(f); }
   { FilterPtr f = MkMulti(K_MAX, 0); f->kids.push_back(r[2]); s.push_back(f); }
   { FilterPtr f = MkMulti(K_XOR, 0); f->kids.push_back(r[0]); FilterPtr g = MkMulti(K_MIN, 0); g->kids.push_back(r[1]); g->kids.push_back(r[4]); f->kids.push_back(g); s.push_back(f); }
   for (size_t i = 0; i < s.size(); i++) {
      QueryFilterRef q = Build(*s[i]); Message a; if (q() == NULL || q()->SaveToArchive(a).IsError()) { fprintf(stderr, "C14: cannot archive seed %s\n", Describe(*s[i]).c_str()); fflush(NULL); _exit(3); }
      g_seedFlat.push_back(FlatOf(a)); g_seedName.push_back(KindKey(*s[i]));
   }
}
static MessageRef Unflat(const std::string & b) { return GetMessageFromPool((const uint8 *)b.data(), (uint32)b.size()); }

static const uint32 BASE = QUERY_FILTER_TYPE_WHATCODE;
static const int NFILL = 20;
static const char * FILLNAME[NFILL] = { "int8=1", "int16=1", "int32=1", "int64=1", "bool", "float", "double", "string", "point", "rect", "raw-1", "raw-3", "bad-pattern-string", "empty-Message", "int32x2", "int8=100", "int8=-1", "int32=-1", "data-Message", "int8=28" };
static void AddFiller(Message & X, const String & fn, int k)
{
   switch (k) {
   case 0: (void)X.AddInt8(fn, 1); break;      case 1: (void)X.AddInt16(fn, 1); break;    case 2: (void)X.AddInt32(fn, 1); break;   case 3: (void)X.AddInt64(fn, 1); break;
   case 4: (void)X.AddBool(fn, true); break;   case 5: (void)X.AddFloat(fn, 1.0f); break; case 6: (void)X.AddDouble(fn, 1.0); break; case 7: (void)X.AddString(fn, "x"); break;
   case 8: (void)X.AddPoint(fn, Point(1, 2)); break; case 9: (void)X.AddRect(fn, Rect(1, 2, 3, 4)); break;
   case 10: (void)X.AddData(fn, B_RAW_TYPE, "\0", 1); break; case 11: (void)X.AddData(fn, B_RAW_TYPE, "abc", 3); break;
   case 12: (void)X.AddString(fn, "[(*"); break; case 13: (void)X.AddMessage(fn, GetMessageFromPool(0)); break;
   case 14: (void)X.AddInt32(fn, 1); (void)X.AddInt32(fn, 2); break; case 15: (void)X.AddInt8(fn, 100); break; case 16: (void)X.AddInt8(fn, -1); break; case 17: (void)X.AddInt32(fn, -1); break;
   case 18: { MessageRef m = GetMessageFromPool(1234); (void)m()->AddString("fn", "f"); (void)m()->AddInt32("val", 7); (void)m()->AddMessage("kid", GetMessageFromPool(0)); (void)X.AddMessage(fn, m); break; }
   case 19: (void)X.AddInt8(fn, 28); break;
   }
}
// Enumerates the single mutations of archive X (and, recursively, of every nested "kid" archive).  target<0: count only.
// Returns the number of mutations in X's subtree; when the target-th is reached it is applied and `applied` set.
static size_t Mutate(Message & X, long target, bool & applied, std::string & desc, const std::string & path)
{
   size_t n = 0;
#define HIT() (!applied && target == (long)(n++))
   for (uint32 w = 0; w < 23; w++) {
      const uint32 code = (w < 19) ? BASE + w : (w == 19) ? BASE - 1 : (w == 20) ? (uint32)LAST_QUERY_FILTER_TYPE : (w == 21) ? 0 : 0xFFFFFFFFu;
      if (code == X.what) continue;
      if (HIT()) { X.what = code; applied = true; desc = path + verif::Fmt("what:=%s", (w < 19) ? verif::Fmt("kind+%u", (unsigned)w).c_str() : (w == 19) ? "first-1" : (w == 20) ? "guard" : (w == 21) ? "0" : "ffffffff"); return n; }
   }
   std::vector<String> names; for (MessageFieldNameIterator it(X); it.HasData(); it++) names.push_back(it.GetFieldName());
   for (size_t f = 0; f < names.size(); f++) {
      uint32 tc = 0, cnt = 0; (void)X.GetInfo(names[f], &tc, &cnt);
      if (HIT()) { (void)X.RemoveName(names[f]); applied = true; desc = path + "drop(" + names[f]() + ")"; return n; }
      for (int k = 0; k < NFILL; k++) if (HIT()) { (void)X.RemoveName(names[f]); AddFiller(X, names[f], k); applied = true; desc = path + "replace(" + names[f]() + "," + FILLNAME[k] + ")"; return n; }
      if (cnt >= 2 && HIT()) { (void)X.RemoveData(names[f], 0); applied = true; desc = path + "remove-first-item(" + names[f]() + ")"; return n; }
   }
   if (HIT()) { (void)X.AddMessage("kid", GetMessageFromPool(0)); applied = true; desc = path + "add-empty-kid"; return n; }
   if (HIT()) { MessageRef copy = Unflat(FlatOf(X)); (void)X.AddMessage("kid", copy); applied = true; desc = path + "nest-copy-of-self-as-kid"; return n; }
#undef HIT
   uint32 tc = 0, cnt = 0;
   if (X.GetInfo("kid", &tc, &cnt).IsOK() && tc == B_MESSAGE_TYPE) for (uint32 i = 0; i < cnt; i++) {
      MessageRef sub; if (X.FindMessage("kid", i, sub).IsError() || sub() == NULL) continue;
      const long t2 = (applied || target < 0) ? -1 : target - (long)n;
      n += Mutate(*sub(), t2, applied, desc, path + verif::Fmt("kid[%u]/", (unsigned)i));
      if (applied && target >= 0) return n;
   }
   return n;
}
static const int NBOMB = 6; static const int BOMBDEPTH[3] = { 16, 256, 4096 };
static MessageRef Bomb(const std::string & seedFlat, int k)
{
   MessageRef cur = Unflat(seedFlat); const int depth = BOMBDEPTH[k % 3]; const bool msgChain = k >= 3;
   for (int d = 0; d < depth; d++) { MessageRef outer = GetMessageFromPool(msgChain ? (uint32)QUERY_FILTER_TYPE_MESSAGE : (uint32)QUERY_FILTER_TYPE_MINMATCH); if (msgChain) (void)outer()->AddString("fn", "m"); (void)outer()->AddMessage("kid", cur); cur = outer; }
   return cur;
}
// index layout: [0,S) unmutated seeds; then for each seed its N1 single mutations followed by NBOMB depth bombs; then (bound 2) for each (seed, m1) its N2 second mutations
static std::vector<size_t> g_n1; static std::vector<uint64_t> g_singleStart; static uint64_t g_singlesEnd = 0;
static std::vector<uint64_t> g_pairStart; static std::vector<std::pair<uint32_t, uint32_t> > g_pairOwner; static uint64_t g_pairsEnd = 0;
static void IndexHostile(bool pairs)
{
   uint64_t at = g_seedFlat.size();
   for (size_t s = 0; s < g_seedFlat.size(); s++) { MessageRef a = Unflat(g_seedFlat[s]); bool ap = false; std::string d; g_n1.push_back(Mutate(*a(), -1, ap, d, "")); g_singleStart.push_back(at); at += g_n1[s] + NBOMB; }
   g_singlesEnd = at; g_pairsEnd = at;
   if (!pairs) return;
   for (size_t s = 0; s < g_seedFlat.size(); s++) for (size_t m1 = 0; m1 < g_n1[s]; m1++) {
      MessageRef a = Unflat(g_seedFlat[s]); bool ap = false; std::string d; (void)Mutate(*a(), (long)m1, ap, d, "");
      bool ap2 = false; const size_t n2 = Mutate(*a(), -1, ap2, d, "");
      g_pairStart.push_back(at); g_pairOwner.push_back(std::make_pair((uint32_t)s, (uint32_t)m1)); at += n2;
   }
   g_pairsEnd = at;
}
static MessageRef HostileArchive(size_t i, std::string & seedName, std::string & desc)
{
   if (i < g_seedFlat.size()) { seedName = g_seedName[i]; desc = "unmutated"; return Unflat(g_seedFlat[i]); }
   if (i < g_singlesEnd) {
      size_t s = (size_t)(std::upper_bound(g_singleStart.begin(), g_singleStart.end(), (uint64_t)i) - g_singleStart.begin()) - 1; const size_t k = (size_t)(i - g_singleStart[s]); seedName = g_seedName[s];
      if (k >= g_n1[s]) { const int b = (int)(k - g_n1[s]); desc = verif::Fmt("nested-%s-kid-depth-bomb(%d)", b >= 3 ? "message-filter" : "min-match", BOMBDEPTH[b % 3]); return Bomb(g_seedFlat[s], b); }
      MessageRef a = Unflat(g_seedFlat[s]); bool ap = false; (void)Mutate(*a(), (long)k, ap, desc, ""); return a;
   }
   size_t p = (size_t)(std::upper_bound(g_pairStart.begin(), g_pairStart.end(), (uint64_t)i) - g_pairStart.begin()) - 1; const size_t s = g_pairOwner[p].first, m1 = g_pairOwner[p].second, m2 = (size_t)(i - g_pairStart[p]);
   seedName = g_seedName[s]; MessageRef a = Unflat(g_seedFlat[s]); bool ap = false; std::string d1, d2; (void)Mutate(*a(), (long)m1, ap, d1, ""); ap = false; (void)Mutate(*a(), (long)m2, ap, d2, "");
   desc = d1 + " + " + d2; return a;
}
// mutation class without the operand detail (for keys): the text up to the first '(' or ':=' of the LAST mutation, plus the field role
static std::string MutKey(const std::string & desc)
{
   std::string d = desc; const size_t plus = d.rfind(" + "); if (plus != std::string::npos) d = d.substr(plus + 3);
   const size_t sl = d.rfind('/'); if (sl != std::string::npos) d = "kid/" + d.substr(sl + 1);
   return d;
}
static void Offer(const Message & arch, const char * how, const std::string & seedName, const std::string & desc, mutx::Case & c, std::string & outcome, bool viaBytes)
{
   ADD(hostileOffered, 1);
   QueryFilterRef q = GetGlobalQueryFilterFactory()()->CreateQueryFilter(arch);
   if (q() == NULL) { outcome += "rejected;"; return; }
   ADD(hostileAccepted, 1);
   const std::string kk = seedName + ":" + MutKey(desc), descr = std::string("hostile archive (") + how + ") of seed " + seedName + " mutated by " + desc;
   mutx::Case dummy; const std::string bits = Decide(*q(), NULL, dummy, "", "", ""); ADD(hostileEvals, bits.size());
   CheckUnmodified(c, "hostile:" + kk, descr);
   RoundTrip(*q(), bits, false, c, "hostile-rearchive-", kk, descr, viaBytes);
   const verif::Hash128 h = verif::HashStr(bits); outcome += verif::Fmt("%016llx;", (unsigned long long)h.a);
}
static void HostileCase(size_t i, mutx::Case & c)
{
   std::string seedName, desc; MessageRef a = HostileArchive(i, seedName, desc);
   if (a() == NULL) { c.Fail("harness:cannot-build-hostile-archive", desc); return; }
   std::string outcome;
   // depth bombs are offered in memory only and re-archived without a byte trip: flattening a Message nested thousands deep is
   // Message code (C02/C07's business, finding F7), not the filter code under test here
   const bool bomb = desc.find("depth-bomb") != std::string::npos;
   Offer(*a(), "in memory", seedName, desc, c, outcome, !bomb);
   if (!bomb) {
      ByteBufferRef bb = a()->FlattenToByteBuffer(); Message trip;
      if (bb() && trip.UnflattenFromByteBuffer(*bb()).IsOK()) Offer(trip, "after a flatten/unflatten trip", seedName, desc, c, outcome, true); else outcome += "unflattenable;";
   }
   c.Outcome(outcome);
}
static std::string HostileDesc(size_t i) { std::string seedName, desc; if (i >= g_pairsEnd) return "{}"; if (i >= g_singlesEnd && g_pairStart.empty()) return "{}"; MessageRef a = HostileArchive(i, seedName, desc); return "{\"seed\": " + verif::JStr(seedName) + ", \"mutation\": " + verif::JStr(desc) + "}"; }

// ------------------------------------------------------------------------------------------------ main
int main(int argc, char ** argv)
{
   verif::Args args; args.Parse(argc, argv);
   verif::Result res; res.harness = "C14_queryfilter";
   g_cnt = (Counters *)mmap(NULL, sizeof(Counters), PROT_READ | PROT_WRITE, MAP_SHARED | MAP_ANONYMOUS, -1, 0); memset(g_cnt, 0, sizeof(Counters));
   BuildUniverse(); BuildLeaves(); BuildSeeds();

   int r1 = 16, k2 = args.Thorough() ? 3 : 2, p3 = args.Thorough() ? 10 : 5, dev = args.Thorough() ? 2 : 1;   // k2: 2 = only the 2-children part, 3 = also the 3-children part
   if (args.kv.count("r1")) r1 = atoi(args.kv["r1"].c_str()); if (args.kv.count("k2")) k2 = atoi(args.kv["k2"].c_str());
   if (args.kv.count("p3")) p3 = atoi(args.kv["p3"].c_str()); if (args.kv.count("dev")) dev = atoi(args.kv["dev"].c_str());
   std::string replayPart; verif::ReplayDoc doc;
   if (!args.replay.empty()) {
      if (!doc.Load(args.replay)) { fprintf(stderr, "cannot read %s\n", args.replay.c_str()); return 3; }
      replayPart = doc.Str("part"); const size_t us = replayPart.rfind('_'); const int v = (us == std::string::npos) ? 0 : atoi(replayPart.c_str() + us + 2);
      if (replayPart.find("trees1") == 0) r1 = v; else if (replayPart.find("expressions") == 0) p3 = v; else if (replayPart.find("hostile") == 0) dev = v;
   }
   g_pool1 = Reduced(r1); BuildPool(g_pool2, 3); BuildPool(g_pool3, 2); BuildExpressions(p3);
   const std::string nT1 = verif::Fmt("trees1_r%d", r1), nT2 = "trees2_k2", nT3 = "trees2_k3", nEx = verif::Fmt("expressions_p%d", p3), nHo = verif::Fmt("hostile_d%d", dev);

   if (!args.replay.empty()) {
      const size_t idx = (size_t)doc.Int("index"); mutx::Runner R(args, res, replayPart); R.SetCpuLimit(60);
      if (replayPart == "leaves") { const int rc = R.ReplayIndex(idx, LeafCase, LeafDesc); fflush(NULL); _exit(rc); }
      if (replayPart == nT1) { const int rc = R.ReplayIndex(idx, Tree1Case, Tree1Desc); fflush(NULL); _exit(rc); }
      if (replayPart == nT2) { const int rc = R.ReplayIndex(idx, Tree2Case, Tree2Desc); fflush(NULL); _exit(rc); }
      if (replayPart == nT3) { const int rc = R.ReplayIndex(idx, Tree3Case, Tree3Desc); fflush(NULL); _exit(rc); }
      if (replayPart == nEx) { const int rc = R.ReplayIndex(idx, ExprCase, ExprDesc); fflush(NULL); _exit(rc); }
      if (replayPart == "strings") { const int rc = R.ReplayIndex(idx, StrCase, StrDesc); fflush(NULL); _exit(rc); }
      if (replayPart == nHo) { IndexHostile(idx >= g_seedFlat.size() && dev >= 2); const int rc = R.ReplayIndex(idx, HostileCase, HostileDesc); fflush(NULL); _exit(rc); }
      fprintf(stderr, "unknown part %s\n", replayPart.c_str()); return 3;
   }

   const double T = args.deadline * 0.9; const uint64_t NP = g_msgs.size() * g_nodes.size();
   const std::string uni = verif::Fmt("%llu Messages (field f absent / present as each of 11 types with each compared value at index 0, two items, other type; 5 what codes; sub-Message field m absent / 1 / 2 items) x 3 node contexts (none, real DataNode 'ab' without children, real DataNode 'aB1' with 2 children)", (unsigned long long)g_msgs.size());
   const std::string checks = "per (filter, Message, node): Matches()==reference unless the pair is outside the documented domain; Message bytes unchanged; SaveToArchive->Flatten->Unflatten->factory yields a filter with identical decisions on every pair and IsEqualTo() the original both ways";
   struct Snap { uint64_t ev, cmp, un; } s0;
#define SNAP() (s0.ev = g_cnt->evals, s0.cmp = g_cnt->compared, s0.un = g_cnt->undefinedPairs)
#define FILL(p) { (p).transitions = g_cnt->evals - s0.ev; (p).evaluations = g_cnt->compared - s0.cmp; (p).extra["evaluations_total"] = verif::Fmt("%llu", (unsigned long long)(g_cnt->evals - s0.ev)); (p).extra["compared_with_reference"] = verif::Fmt("%llu", (unsigned long long)(g_cnt->compared - s0.cmp)); (p).extra["pairs_outside_documented_domain"] = verif::Fmt("%llu", (unsigned long long)(g_cnt->undefinedPairs - s0.un)); }
   if (args.WantPart("leaves")) {
      SNAP(); mutx::Runner R(args, res, "leaves"); R.SetCpuLimit(20); R.SetDeadline(args.t0 + T * 0.10);
      verif::Part & p = R.Run(g_leaves.size(), LeafCase, LeafDesc); FILL(p); p.states = g_leaves.size(); p.bound_completed = p.exhaustive ? 0 : -1;
      p.rule = "one case per leaf filter: what-code ranges (5); value-exists x {present,absent field} x {any,int32,string} x index{0,1}; each of the 9 numeric kinds x 6 operators x 3 operands (incl. type minimum/maximum) x index{0,1} x default{absent,present} x mask op{none,and,xor} (integer and bool kinds); string x all 28 operators x 3 operands x index{0,1} x default{absent,present}; node-name x 28 operators x 3 operands; child-count x 6 x 3; raw-data x 12 operators x 3 operands x type{any,raw} x index{0,1} x default{absent,2 bytes,zero-length} plus NULL and zero-length values; sub-Message filter x index{0,1} x child{none,what,int32} x default Message{absent,present}; over " + uni + "; " + checks;
   }
   if (args.WantPart("trees1")) {
      SNAP(); mutx::Runner R(args, res, nT1); R.SetCpuLimit(20); R.SetDeadline(args.t0 + T * 0.20);
      const uint64_t n = TreeCount(g_pool1.size(), 3); verif::Part & p = R.Run((size_t)n, Tree1Case, Tree1Desc); FILL(p); p.states = n; p.bound_completed = p.exhaustive ? 1 : -1;
      p.rule = verif::Fmt("depth-1 trees: each of 9 combinators (xor; min-match n and max-match n for n in {0,1,2,inf}, i.e. or/and/nor/nand and the in-between thresholds, built through the And/Or/Nand/Nor convenience classes where they apply) over EVERY tuple of 0..3 children from a reduced set of %d leaves (one per filter family: int32, string with default, what, exists, sub-Message, node-name, child-count, raw, masked int8 with default, double%s), plus the sub-Message filter wrapped around each; over ", (int)g_pool1.size(), g_pool1.size() > 10 ? ", wildcard, bool, point, what range, ignore-case contains, int64" : "") + uni + "; " + checks;
   }
   if (args.WantPart("trees2")) {
      SNAP(); mutx::Runner R(args, res, nT2); R.SetCpuLimit(20); R.SetDeadline(args.t0 + T * 0.30);
      const uint64_t n = TreeCount(g_pool2.size(), 2); verif::Part & p = R.Run((size_t)n, Tree2Case, Tree2Desc); FILL(p); p.states = n; p.bound_completed = p.exhaustive ? 2 : -1;
      p.rule = verif::Fmt("depth-2 trees (reduced leaf set, stated): each of the 9 combinators over EVERY tuple of 0..2 children drawn from %d candidates = 3 leaves (int32 ==, string startswith with default, what) and all %d depth-1 trees over those 3 leaves with <=2 children (9 combinators x 13 tuples + 3 sub-Message wrappers); plus the sub-Message wrapper around each candidate; over ", (int)g_pool2.size(), (int)g_pool2.size() - 3) + uni + "; " + checks;
   }
   if (k2 >= 3 && args.WantPart("trees2")) {
      SNAP(); mutx::Runner R(args, res, nT3); R.SetCpuLimit(20); R.SetDeadline(args.t0 + T * 0.50);
      const uint64_t n = TreeCount(g_pool3.size(), 3); verif::Part & p = R.Run((size_t)n, Tree3Case, Tree3Desc); FILL(p); p.states = n; p.bound_completed = p.exhaustive ? 2 : -1;
      p.rule = verif::Fmt("depth-2 trees with up to 3 children (further reduced leaf set, stated): each of the 9 combinators over EVERY tuple of 0..3 children drawn from %d candidates = 2 leaves (int32 ==, string startswith with default) and all %d depth-1 trees over those 2 leaves with <=2 children (9 combinators x 7 tuples + 2 sub-Message wrappers); plus the sub-Message wrapper around each candidate; over ", (int)g_pool3.size(), (int)g_pool3.size() - 2) + uni + "; " + checks;
   }
   if (args.WantPart("expressions")) {
      SNAP(); mutx::Runner R(args, res, nEx); R.SetCpuLimit(20); R.SetDeadline(args.t0 + T * 0.65);
      verif::Part & p = R.Run(g_exprs.size(), ExprCase, ExprDesc); FILL(p); p.states = g_exprs.size(); p.bound_completed = p.exhaustive ? 3 : -1;
      p.rule = verif::Fmt("every derivation of the documented expression grammar (Beginners Guide, 'Building a QueryFilter from an expression-String') with <=3 predicates: single predicates = all 6 comparison operators and the synonyms is/equals/=, every cast, every inferred value type, all 14 string operators with quoted/bare/cast values, name:index, name|default, name:index|default, exists with and without cast/index, what with all operators -- each bare, parenthesised, doubly parenthesised, negated with ! / not / !!; pairs over 12 predicates x {&& || ^ and or xor} x negations; triples over %d predicates: flat same-operator chains x 8 negation patterns, both nestings x 9 operator pairs x 16 negation patterns, and the 6 mixed-operator chains documented as 'ERROR, ambiguous' (must be NULL); the filter built from the string must decide like the tree ref/reffilter.h's own parser denotes on every (Message, node) pair, and survive the archive round trip; over ", p3) + uni;
      p.extra["well_formed"] = verif::Fmt("%llu", (unsigned long long)g_cnt->exprWell); p.extra["documented_ambiguous"] = verif::Fmt("%llu", (unsigned long long)g_cnt->exprAmbiguous);
   }
   if (args.WantPart("strings")) {
      SNAP(); const uint64_t w0 = g_cnt->exprWell, u0 = g_cnt->exprUnspec, a0 = g_cnt->exprAcceptedUnspec;
      mutx::Runner R(args, res, "strings"); R.SetCpuLimit(20); R.SetDeadline(args.t0 + T * 0.72);
      const uint64_t n = TupleCount(10, 5); verif::Part & p = R.Run((size_t)n, StrCase, StrDesc); FILL(p); p.states = n; p.bound_completed = p.exhaustive ? 5 : -1;
      p.rule = "every string of length <=5 over { ( ) ! = & | a 1 \" blank } offered to CreateQueryFilterFromExpression: no sanitizer report, abort or hang; whatever filter comes back is evaluated on every (Message, node) pair, must leave the Messages unchanged and survive the archive round trip; strings the documented grammar gives a meaning (e.g. 'a = 1') must decide as denoted";
      p.extra["well_formed"] = verif::Fmt("%llu", (unsigned long long)(g_cnt->exprWell - w0)); p.extra["unspecified"] = verif::Fmt("%llu", (unsigned long long)(g_cnt->exprUnspec - u0)); p.extra["unspecified_but_accepted"] = verif::Fmt("%llu", (unsigned long long)(g_cnt->exprAcceptedUnspec - a0));
   }
   if (args.WantPart("hostile")) {
      SNAP(); IndexHostile(dev >= 2);
      mutx::Runner R(args, res, nHo); R.SetCpuLimit(60); R.SetDeadline(args.t0 + T);
      verif::Part & p = R.Run((size_t)g_pairsEnd, HostileCase, HostileDesc); p.states = g_pairsEnd; p.transitions = g_cnt->hostileOffered; p.evaluations = g_cnt->hostileEvals; p.bound_completed = p.exhaustive ? dev : -1;
      p.rule = verif::Fmt("every archive within %d mutation(s) of the valid archive of %d seed filters (every kind; both threshold kinds, all five combinator classes, nested combinator, both sub-Message forms, raw-data with and without default, masked int32, regex and wildcard strings, node-name, child-count). Single mutations, applied to the archive and recursively to every nested child archive: what := each other filter code / first-1 / guard / 0 / 2^32-1; each field dropped; each field replaced by each of %d typed fillers (every primitive type, 1- and 3-byte raw, ill-formed pattern string, empty Message, arbitrary data Message, two-item int32, op bytes 28/100/-1, int32 -1 = index 2^32-1); first item of a multi-item field removed; extra empty child; a copy of the archive nested inside itself; plus nested-kid depth bombs {16,256,4096} (min-match chain and sub-Message-filter chain). Each archive is offered in memory and after a flatten/unflatten trip (depth bombs: in memory only, re-archived without the byte trip): the factory must return NULL or a filter that evaluates every (Message, node) pair without sanitizer report/abort/timeout, leaves the Messages unchanged, re-archives, and whose re-archived form the factory accepts and which decides identically", dev, (int)g_seedFlat.size(), NFILL);
      p.extra["archives_offered"] = verif::Fmt("%llu", (unsigned long long)g_cnt->hostileOffered); p.extra["accepted_builds"] = verif::Fmt("%llu", (unsigned long long)g_cnt->hostileAccepted); p.extra["evaluations"] = verif::Fmt("%llu", (unsigned long long)g_cnt->hostileEvals);
   }
   res.observations.push_back("substring searches with an empty needle or empty subject are outside the compared domain (String::IndexOf(\"\") is true on a non-empty string, IndexOfIgnoreCase(\"\") is always false); raw-data filters with a NULL/zero-length value never match");
   res.observations.push_back("a RawDataQueryFilter whose value is a zero-length (non-NULL) buffer is archived without a value and restored with a NULL value: decisions are identical (never matches) but IsEqualTo() is false");
   res.observations.push_back("ChildCountQueryFilter without a node context evaluates as if the node had 0 children (not documented; outside the compared domain)");
   res.observations.push_back("ValueExistsQueryFilter::IsEqualTo compares only the type code (it calls QueryFilter::IsEqualTo instead of ValueQueryFilter::IsEqualTo), so two value-exists filters on different fields compare equal; not part of C14's text");
   fprintf(stderr, "C14: evals=%llu compared=%llu undefined=%llu roundtrips=%llu hostile=%llu/%llu violations=%llu wall=%.1fs\n", (unsigned long long)g_cnt->evals, (unsigned long long)g_cnt->compared, (unsigned long long)g_cnt->undefinedPairs, (unsigned long long)g_cnt->roundTrips, (unsigned long long)g_cnt->hostileAccepted, (unsigned long long)g_cnt->hostileOffered, (unsigned long long)res.violations.size(), verif::NowS() - args.t0);
   (void)NP;
   const int rc = res.Write(args); fflush(NULL); _exit(rc);   // skip static destructors: the universe holds pooled objects
}
