// C17 -- the same alphabet on the reference byte string (ref/refstring.h).  Item for item the mirror of Exec():
// an item the documentation does not define is recorded with Skip() and then only the differential oracles look at it.
#ifndef C17_STRING_REF_H
#define C17_STRING_REF_H

#include "harness/C17_string_defs.h"
#include "ref/refstring.h"

namespace c17 {

namespace rs = refstring;

// Applies op to (s,t); a / c are the values of the String / C-string operand.  Returns false when the resulting VALUE of s (or t)
// is not defined by the documentation (the caller then adopts the implementation's value and goes on).
static bool RefExec(const Op & o, Str & s, Str & t, const Str & a, const Str & c, Out & out)
{
   const uint32 n = (uint32)s.size();
   const uint32 mid = n / 2;
   const Str s0 = s;
   switch (o.k) {
   case K_ASSIGN_STR: s = a; return true;
   case K_ASSIGN_CSTR: s = c; return true;
   case K_SETCSTR_N: out.Put("SetCstr(cstr,maxLen)", "ok"); s = rs::Take(c, Pos(o.p1, n)); return true;
   case K_SETFROM: out.Put("SetFromString", "ok"); s = rs::Sub(a, Pos(o.p1, n), Pos(o.p2, n)); return true;
   case K_ASSIGN_SUBSTR: s = rs::Sub(s0, Pos(o.p1, n), Pos(o.p2, n)); return true;
   case K_T_FIX: t = Gen((uint32)o.p1, o.p2); return true;
   case K_T_FROM_S: t = s; return true;
   case K_SWAP: s.swap(t); return true;
   case K_MOVE: s = t; t.clear(); return true;
   case K_APPEND_STR: s += a; return true;
   case K_APPEND_CSTR: s += c; return true;
   case K_APPEND_CHAR: s += (char)o.p1; return true;
   case K_APPENDCHARS_N: out.Put("AppendChars(cstr,n)", "ok"); s += rs::Take(c, (uint32)o.p1); return true;
   case K_PREPEND_CSTR: out.Put("PrependChars(cstr)", "ok"); s = c + s0; return true;
   case K_WITHPREPEND_STR: s = a + s0; return true;
   case K_INSERT_CSTR: out.Put("InsertChars(idx,cstr)", "ok"); s = rs::Insert(s0, Pos(o.p1, n), c); return true;
   case K_WITHINSERT_STR: s = rs::Insert(s0, Pos(o.p1, n), a); return true;
   case K_MINUS_STR: case K_MINUS_CSTR: { const Str & x = (o.k == K_MINUS_STR) ? a : c; if (!x.empty()) { int p = rs::RFind(s0, x); if (p >= 0) s.erase((size_t)p, x.size()); } return true; }   // last instance cut out; not found / empty: no effect
   case K_MINUS_CHAR: { int p = rs::RFindChFrom(s0, (char)o.p1, 0); if (p >= 0) s.erase((size_t)p, 1); return true; }
   case K_DEC: if (n) s.erase(n - 1); return true;
   case K_REPLACE_CHAR: { uint32_t cnt; s = rs::ReplaceCh(s0, (char)o.p1, (char)o.p2, NL, 0, cnt); out.N("Replace(char,char)", cnt); return true; }
   case K_REPLACE_STR: {
      const Str f = (o.p1 == L_A) ? a : (o.p1 == L_T) ? t : Str(LIT[o.p1]);
      const Str w = (o.p2 == L_A) ? a : (o.p2 == L_T) ? t : Str(LIT[o.p2]);
      if (f.empty() || rs::Overlapping(s0, f, 0)) { out.Skip("Replace(String,String)"); return false; }   // empty needle / overlapping matches: not defined
      int cnt; s = rs::Replace(s0, f, w, NL, 0, cnt); out.N("Replace(String,String)", cnt); return true; }
   case K_TRIM: s = rs::Trimmed(s0); return true;
   case K_PAD: s = rs::Padded(s0, Pos(o.p1, n), o.p2 != 0, o.p2 ? '*' : ' '); return true;
   case K_UPPER: s = rs::Upper(s0); return true;
   case K_REVERSE: s = rs::Reversed(s0); return true;
   case K_TRUNC_TO: s = rs::Take(s0, Pos(o.p1, n)); return true;
   case K_CLEAR: case K_CLEARFLUSH: s.clear(); return true;
   case K_ARG_INT: if (!rs::ArgDomain(s0)) return false; s = rs::Arg(s0, std::to_string(o.p1)); return true;
   case K_ARG_STR: if (!rs::ArgDomain(s0)) return false; s = rs::Arg(s0, a); return true;
   case K_ARG_CSTR: if (!rs::ArgDomain(s0)) return false; s = rs::Arg(s0, c); return true;
   case K_PREALLOC: out.Put("Prealloc", "ok"); return true;
   case K_SHRINK: out.Put("ShrinkToFit", "ok"); return true;
   case K_UNFLATTEN_INTO: out.Put("Unflatten", "ok"); s = (o.opnd == O_T) ? a : c; return true;

   // ------------------------------------------------------------------ read-only bundles
   case K_CONSTRUCT: {
      const uint32 an = (uint32)a.size();
      out.R("String(String)", a); out.R("String(cstr)", c); out.R("String(cstr,cap)", rs::Take(c, CAP)); out.R("String(cstr,cap+1)", rs::Take(c, CAP + 1)); out.R("String(cstr,0)", "");
      out.R("String(String,1,cap+1)", rs::Sub(a, 1, CAP + 1)); out.R("String(String,mid)", rs::Sub(a, an / 2)); out.R("String(String,len,len+3)", "");
      out.R("String(prealloc,cstr)", c); out.R("String(prealloc,cstr,3)", rs::Take(c, 3)); out.R("String(String,prealloc)", a); out.R("String(String&&)", a); out.R("c=A;c=c", a); out.R("c=c()", a); out.R("c=NULL", "");
      out.R("operator+(String,String)", s + a); out.R("operator+(String,cstr)", s + c); out.R("operator+(cstr,String)", c + s); out.R("operator+(String,char)", s + 'z'); out.R("operator+(char,String)", 'z' + s);
      { Str r = s; if (!a.empty()) { int p = rs::RFind(s, a); if (p >= 0) r.erase((size_t)p, a.size()); } out.R("operator-(String,String)", r); }
      { Str r = s; if (!c.empty()) { int p = rs::RFind(s, c); if (p >= 0) r.erase((size_t)p, c.size()); } out.R("operator-(String,cstr)", r); }
      { Str r = s; int p = rs::RFindChFrom(s, 'b', 0); if (p >= 0) r.erase((size_t)p, 1); out.R("operator-(String,char)", r); }
      return true; }
   case K_WITH_FORMS: {
      out.R("WithAppend(String)", s + a); out.R("WithAppend(String,2)", s + rs::Take(a, 2)); out.R("WithAppend(cstr)", s + c); out.R("WithAppend(cstr,2)", s + rs::Take(c, 2)); out.R("WithAppend(char,3)", s + "zzz");
      out.R("WithPrepend(String)", a + s); out.R("WithPrepend(String,1)", rs::Take(a, 1) + s); out.R("WithPrepend(cstr)", c + s); out.R("WithPrepend(cstr,1)", rs::Take(c, 1) + s); out.R("WithPrepend(char,2)", "zz" + s);
      out.R("WithInsert(mid,String)", rs::Insert(s, mid, a)); out.R("WithInsert(1,String,2)", rs::Insert(s, 1, rs::Take(a, 2))); out.R("WithInsert(mid,cstr)", rs::Insert(s, mid, c)); out.R("WithInsert(len+1,cstr,1)", s + rs::Take(c, 1));
      out.R("WithInsert(mid,char,3)", rs::Insert(s, mid, "zzz")); out.R("WithInsert(0,char,0)", s);
      out.Put("InsertChars(mid,cstr,2)", "ok"); out.R("InsertChars(mid,cstr,2) value", rs::Insert(s, mid, rs::Take(c, 2)));
      out.Put("AppendChars(cstr,2)", "ok"); out.R("AppendChars(cstr,2) value", s + rs::Take(c, 2));
      out.Put("PrependChars(cstr,1)", "ok"); out.R("PrependChars(cstr,1) value", rs::Take(c, 1) + s);
      out.R("operator<<", s + a + c + "12" + "true" + "1.50");
      out.Skip("WithAppendedWord(String)"); out.Skip("WithAppendedWord(cstr,sep)"); out.Skip("WithPrependedWord(String)"); out.Skip("WithInsertedWord(mid,String)"); out.Skip("WithInsertedWord(1,cstr,nosep)");
      return true; }
   case K_SUBSTR_FORMS: {
      for (int i = 0; i < NFROMS; i++) { out.cur = PosName(FROMS[i]); out.R("Substring(from)", rs::Sub(s, Pos(FROMS[i], n))); }
      out.cur = "";
      out.R("Substring(0,cap)", rs::Sub(s, 0, CAP)); out.R("Substring(1,cap+1)", rs::Sub(s, 1, CAP + 1)); out.R("Substring(mid,len)", rs::Sub(s, mid, n)); out.R("Substring(len,len+5)", ""); out.R("Substring(mid,1)", rs::Sub(s, mid, 1));
      // after the LAST instance of the marker; whole string if not found.  Empty marker: not defined
      if (a.empty()) out.Skip("Substring(markerString)"); else { int p = rs::RFind(s, a); out.R("Substring(markerString)", p >= 0 ? s.substr((size_t)p + a.size()) : s); }
      if (c.empty()) out.Skip("Substring(markerCstr)"); else { int p = rs::RFind(s, c); out.R("Substring(markerCstr)", p >= 0 ? s.substr((size_t)p + c.size()) : s); }
      static const int bs[] = { P0, P1, PMID };
      for (int i = 0; i < 3; i++) {   // from beginIndex up to the FIRST instance of the marker at or after it; rest of the string if not found
         const uint32 b = Pos(bs[i], n); out.cur = PosName(bs[i]);
         if (a.empty()) out.Skip("Substring(from,markerString)"); else { int p = rs::Find(s, a, b); out.R("Substring(from,markerString)", p >= 0 ? rs::Sub(s, b, (uint32)p) : rs::Sub(s, b)); }
         if (c.empty()) out.Skip("Substring(from,markerCstr)"); else { int p = rs::Find(s, c, b); out.R("Substring(from,markerCstr)", p >= 0 ? rs::Sub(s, b, (uint32)p) : rs::Sub(s, b)); }
      }
      out.cur = "";
      return true; }
   case K_REPL_FORMS: {
      uint32_t cc; int ci;
      out.R("WithReplacements(a->z)", rs::ReplaceCh(s, 'a', 'z', NL, 0, cc)); out.R("WithReplacements(sp->*,1,from1)", rs::ReplaceCh(s, ' ', '*', 1, 1, cc)); out.R("WithReplacements(b->b)", s);
      { Str r = rs::ReplaceCh(s, 'b', 'z', 2, mid, cc); out.N("Replace(b->z,2,mid)", cc); out.R("Replace(b->z,2,mid) value", r); }
#define C17_RDEF(nd, from) (!(nd).empty() && !rs::Overlapping(s, (nd), (from)))
      if (C17_RDEF(a, 0)) out.R("WithReplacements(A,x)", rs::Replace(s, a, "x", NL, 0, ci)); else out.Skip("WithReplacements(A,x)");
      out.R("WithReplacements(A,A)", s);
      out.R("WithReplacements(a,A,1,1)", rs::Replace(s, "a", a, 1, 1, ci));
      if (C17_RDEF(a, 1)) out.R("WithReplacements(A,empty,all,1)", rs::Replace(s, a, "", NL, 1, ci)); else out.Skip("WithReplacements(A,empty,all,1)");
      out.R("WithReplacements(b,bb,2,mid)", rs::Replace(s, "b", "bb", 2, mid, ci));
      if (C17_RDEF(c, 0)) out.R("WithReplacements(C,cap-long)", rs::Replace(s, c, "0123456789abcde", NL, 0, ci)); else out.Skip("WithReplacements(C,cap-long)");
      { Str r = rs::Replace(s, "a", a, 1, 1, ci); out.N("Replace(a,A,1,1)", ci); out.R("Replace(a,A,1,1) value", r); }
      // replacing X by X: the value is unchanged; the COUNT is defined only for a non-empty, non-overlapping needle
      if (C17_RDEF(a, 0)) out.N("Replace(A,A)", rs::Count(s, a, 0)); else out.Skip("Replace(A,A)");
      out.R("Replace(A,A) value", s);
#undef C17_RDEF
      out.N("Replace(x,y,0)", 0); out.R("Replace(x,y,0) value", s);
      out.Skip("WithReplacements(table)"); out.Skip("Replace(table,2)"); out.Skip("Replace(table,2) value");
      return true; }
   case K_CASE_FORMS: {
      out.R("ToLowerCase", rs::Lower(s)); out.R("ToUpperCase", rs::Upper(s)); out.Skip("ToMixedCase"); out.R("Trimmed", rs::Trimmed(s));
      out.R("PaddedBy(cap,left)", rs::Padded(s, CAP, false, ' ')); out.R("PaddedBy(cap+1,right,*)", rs::Padded(s, CAP + 1, true, '*')); out.R("PaddedBy(len)", s); out.R("PaddedBy(2cap+1,left,0)", rs::Padded(s, 2 * CAP + 1, false, '0'));
      out.R("Reverse", rs::Reversed(s)); out.R("TruncateChars(2)", rs::Take(s, n > 2 ? n - 2 : 0)); out.R("TruncateChars(len+1)", ""); out.R("TruncateToLength(1)", rs::Take(s, 1)); out.R("TruncateToLength(len+1)", s);
      out.R("s--;s++", rs::Take(s, n ? n - 1 : 0) + " ");
      out.N("Length", n); out.B("IsIndexValid(last)", n > 0); out.B("IsIndexValid(len)", false);
      if (n) { out.N("CharAt(0)", (unsigned char)s[0]); out.N("operator[](last)", (unsigned char)s[n - 1]); } else { out.N("CharAt(0)", -1); out.N("operator[](last)", -1); }
      out.B("IsCharInLocalArray(Cstr()+mid)", true); out.B("IsCharInLocalArray(other)", false);
      out.Skip("IndentedBy(2)"); out.Skip("WithCharsEscaped(a%)"); out.Skip("GetDistanceTo(t)"); out.Skip("GetDistanceTo(t())");
      return true; }
   case K_SEARCH: {
      const Str ls = rs::Lower(s), la = rs::Lower(a), lc = rs::Lower(c);
      for (int i = 0; i < NFROMS; i++) {
         const uint32 f = Pos(FROMS[i], n); out.cur = PosName(FROMS[i]);
         // empty needle: not defined (IndexOf("") and IndexOfIgnoreCase("") disagree with each other in the implementation)
         if (a.empty()) out.Skip("IndexOf(String,from)"); else out.N("IndexOf(String,from)", rs::Find(s, a, f));
         if (c.empty()) out.Skip("IndexOf(cstr,from)"); else out.N("IndexOf(cstr,from)", rs::Find(s, c, f));
         if (a.empty()) out.Skip("IndexOfIgnoreCase(String,from)"); else out.N("IndexOfIgnoreCase(String,from)", rs::Find(ls, la, f));
         if (c.empty()) out.Skip("IndexOfIgnoreCase(cstr,from)"); else out.N("IndexOfIgnoreCase(cstr,from)", rs::Find(ls, lc, f));
         if (a.empty()) out.Skip("LastIndexOfIgnoreCase(String,from)"); else out.N("LastIndexOfIgnoreCase(String,from)", rs::RFindFrom(ls, la, f));
         if (c.empty()) out.Skip("LastIndexOfIgnoreCase(cstr,from)"); else out.N("LastIndexOfIgnoreCase(cstr,from)", rs::RFindFrom(ls, lc, f));
         // LastIndexOf(str, fromIndex): documented "at or after fromIndex" but the one-argument overload relies on "at or before" -> not compared (see observations)
         out.Skip("LastIndexOf(String,from)"); out.Skip("LastIndexOf(cstr,from)");
         if (a.empty()) out.Skip("Contains(String,from)"); else out.B("Contains(String,from)", rs::Find(s, a, f) >= 0);
         if (c.empty()) out.Skip("Contains(cstr,from)"); else out.B("Contains(cstr,from)", rs::Find(s, c, f) >= 0);
         if (a.empty()) out.Skip("ContainsIgnoreCase(String,from)"); else out.B("ContainsIgnoreCase(String,from)", rs::Find(ls, la, f) >= 0);
         if (c.empty()) out.Skip("ContainsIgnoreCase(cstr,from)"); else out.B("ContainsIgnoreCase(cstr,from)", rs::Find(ls, lc, f) >= 0);
         if (a.empty() || rs::Overlapping(s, a, f)) out.Skip("GetNumInstancesOf(String,from)"); else out.N("GetNumInstancesOf(String,from)", rs::Count(s, a, f));
         if (c.empty() || rs::Overlapping(s, c, f)) out.Skip("GetNumInstancesOf(cstr,from)"); else out.N("GetNumInstancesOf(cstr,from)", rs::Count(s, c, f));
      }
      out.cur = "";
      if (a.empty()) out.Skip("LastIndexOf(String)"); else out.N("LastIndexOf(String)", rs::RFind(s, a));
      if (c.empty()) out.Skip("LastIndexOf(cstr)"); else out.N("LastIndexOf(cstr)", rs::RFind(s, c));
      out.B("StartsWith(String)", rs::StartsWith(s, a)); out.B("StartsWith(cstr)", rs::StartsWith(s, c)); out.B("EndsWith(String)", rs::EndsWith(s, a)); out.B("EndsWith(cstr)", rs::EndsWith(s, c));
      out.B("StartsWithIgnoreCase(String)", rs::StartsWith(ls, la)); out.B("StartsWithIgnoreCase(cstr)", rs::StartsWith(ls, lc)); out.B("EndsWithIgnoreCase(String)", rs::EndsWith(ls, la)); out.B("EndsWithIgnoreCase(cstr)", rs::EndsWith(ls, lc));
      return true; }
   case K_SEARCH_CHAR: {
      const Str ls = rs::Lower(s);
      for (int ci = 0; ci < NSCHARS; ci++) {
         const char ch = SCHARS[ci], lch = rs::Lo(ch);
         for (int i = 0; i < NCFROMS; i++) {
            const uint32 f = Pos(CFROMS[i], n); out.cur = PosName(CFROMS[i]);
            out.N("IndexOf(char,from)", rs::FindCh(s, ch, f)); out.N("LastIndexOf(char,from)", rs::RFindChFrom(s, ch, f)); out.N("IndexOfIgnoreCase(char,from)", rs::FindCh(ls, lch, f)); out.N("LastIndexOfIgnoreCase(char,from)", rs::RFindChFrom(ls, lch, f));
            out.B("Contains(char,from)", rs::FindCh(s, ch, f) >= 0); out.B("ContainsIgnoreCase(char,from)", rs::FindCh(ls, lch, f) >= 0); out.N("GetNumInstancesOf(char,from)", rs::CountCh(s, ch, f));
         }
         out.cur = "";
         out.B("StartsWith(char)", n && s[0] == ch); out.B("EndsWith(char)", n && s[n - 1] == ch); out.B("StartsWithIgnoreCase(char)", n && ls[0] == lch); out.B("EndsWithIgnoreCase(char)", n && ls[n - 1] == lch);
         out.B("Equals(char)", n == 1 && s[0] == ch); out.B("EqualsIgnoreCase(char)", n == 1 && ls[0] == lch);
      }
      return true; }
   case K_COMPARE: {
      const int ca = rs::Cmp(s, a), cc = rs::Cmp(s, c);
      out.Sg("CompareTo(String)", ca); out.Sg("CompareTo(cstr)", cc);
      out.B("==(String)", ca == 0); out.B("!=(String)", ca != 0); out.B("<(String)", ca < 0); out.B(">(String)", ca > 0); out.B("<=(String)", ca <= 0); out.B(">=(String)", ca >= 0);
      out.B("==(cstr)", cc == 0); out.B("!=(cstr)", cc != 0); out.B("<(cstr)", cc < 0); out.B(">(cstr)", cc > 0); out.B("<=(cstr)", cc <= 0); out.B(">=(cstr)", cc >= 0);
      out.B("Equals(String)", ca == 0); out.B("Equals(cstr)", cc == 0); out.B("EqualsIgnoreCase(String)", rs::Lower(s) == rs::Lower(a)); out.B("EqualsIgnoreCase(cstr)", rs::Lower(s) == rs::Lower(c));
      { bool ok; int r = rs::CmpNoCase(s, a, ok); if (ok) out.Sg("CompareToIgnoreCase(String)", r); else out.Skip("CompareToIgnoreCase(String)"); }
      { bool ok; int r = rs::CmpNoCase(s, c, ok); if (ok) out.Sg("CompareToIgnoreCase(cstr)", r); else out.Skip("CompareToIgnoreCase(cstr)"); }
      out.Skip("NumericAwareCompareTo(String)"); out.Skip("NumericAwareCompareTo(cstr)"); out.Skip("NumericAwareCompareToIgnoreCase(String)"); out.Skip("NumericAwareCompareToIgnoreCase(cstr)");
      out.Skip("HashCode"); out.Skip("HashCode64"); out.Skip("CalculateChecksum"); out.B("equal => same HashCode", true);
      return true; }
   case K_ARG_FORMS: {
      const bool d = rs::ArgDomain(s);
#define C17_ARG(label, value) do { if (d) out.R(label, rs::Arg(s, value)); else out.Skip(label); } while (0)
      C17_ARG("Arg(int 7)", "7"); C17_ARG("Arg(String)", a); C17_ARG("Arg(cstr)", c); C17_ARG("Arg(uint)", "4000000000"); C17_ARG("Arg(int64)", "-12345678901"); C17_ARG("Arg(short)", "-3");
#undef C17_ARG
      out.Skip("Arg(int).Arg(String)");   // second substitution depends on which token is "lowest" after the first: left to the differential oracles
      out.Skip("Arg(bool)"); out.Skip("Arg(char)"); out.Skip("Arg(double)"); out.Skip("Arg(double,1,3)"); out.Skip("Arg(float,fmt)"); out.Skip("Arg(int,fmt)"); out.Skip("Arg(void*)");
      return true; }
   case K_NUMERIC: {
      const bool d = rs::SuffixDomain(s); const Str stripped = s.substr(0, rs::SuffixStart(s));
      if (d) { out.N("ParseNumericSuffix()", rs::SuffixValue(s, 0)); out.N("ParseNumericSuffix(99)", rs::SuffixValue(s, 99)); } else { out.Skip("ParseNumericSuffix()"); out.Skip("ParseNumericSuffix(99)"); }
      out.R("WithoutNumericSuffix(&v)", stripped); if (d) out.N("WithoutNumericSuffix removed value", rs::SuffixValue(s, 0)); else out.Skip("WithoutNumericSuffix removed value");
      out.R("WithoutNumericSuffix()", stripped);
      out.B("StartsWithNumber(true)", (n > 0 && rs::IsDig(s[0])) || (n > 1 && s[0] == '-' && rs::IsDig(s[1]))); out.B("StartsWithNumber(false)", n > 0 && rs::IsDig(s[0]));
      return true; }
   case K_PREFIXSUFFIX: {
      out.R("WithSuffix(String)", rs::EndsWith(s, a) ? s : s + a); out.R("WithPrefix(String)", rs::StartsWith(s, a) ? s : a + s);
      out.R("WithSuffix(char)", (n && s[n - 1] == 'b') ? s : s + 'b'); out.R("WithPrefix(char)", (n && s[0] == 'a') ? s : 'a' + s);
      out.R("WithoutSuffix(String)", rs::WithoutSuffix(s, a, NL, false)); out.R("WithoutSuffix(String,1)", rs::WithoutSuffix(s, a, 1, false)); out.R("WithoutPrefix(String)", rs::WithoutPrefix(s, a, NL, false)); out.R("WithoutPrefix(String,1)", rs::WithoutPrefix(s, a, 1, false));
      out.R("WithoutSuffix(char)", rs::WithoutSuffix(s, "b", NL, false)); out.R("WithoutPrefix(char)", rs::WithoutPrefix(s, "a", NL, false)); out.R("WithoutSuffix(char,1)", rs::WithoutSuffix(s, " ", 1, false)); out.R("WithoutPrefix(char,1)", rs::WithoutPrefix(s, " ", 1, false));
      out.R("WithoutSuffixIgnoreCase(String)", rs::WithoutSuffix(s, a, NL, true)); out.R("WithoutPrefixIgnoreCase(String)", rs::WithoutPrefix(s, a, NL, true)); out.R("WithoutSuffixIgnoreCase(char)", rs::WithoutSuffix(s, "B", NL, true)); out.R("WithoutPrefixIgnoreCase(char)", rs::WithoutPrefix(s, "A", NL, true));
      return true; }
   case K_FLATTEN_RT: {
      out.N("FlattenedSize", n + 1); out.Put("Flatten bytes", verif::Hex(s) + "00"); out.B("Flatten wrote exactly FlattenedSize bytes", true);
      out.Put("Unflatten(exact)", "ok"); out.R("Unflatten(exact) value", s); out.B("Unflatten(Flatten(s))==s", true);
      out.Put("Unflatten(with trailing bytes)", "ok"); out.R("Unflatten(with trailing bytes) value", s);
      out.B("TypeCode/IsFixedSize/AllowsTypeCode", true);
      return true; }
   case K_UNFLATTEN_BAD: out.Put(n ? "Unflatten(unterminated)" : "Unflatten(empty buffer)", "rejected"); return true;   // a flattened String is its bytes plus one NUL: anything else is not a String
   }
   return true;
}

}  // namespace c17

#endif
