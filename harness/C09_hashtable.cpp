// C09 -- muscle::Hashtable behaves as an ideal ordered map under every operation sequence, and iterators that are live while the
// table is modified / cleared / swapped / destroyed never refer to a removed entry.
// SEQX exploration: two real tables (t, u) + up to two real registered iterators (A, B) against a boring reference
// (vector of (key,value) + reference iterators (saved-copy flag, cursor key, owner table)), advanced in lock-step.
// The model code lives in harness/C09_model.h (included below) so that this file stays readable.
#include "engines/seqx/seqx.h"
#include "util/Hashtable.h"
#include "syslog/SysLog.h"
#include <vector>

using namespace muscle;

// ---------------------------------------------------------------- harness key type: the hash code of every key is chosen by the harness
static uint32 g_hash[8] = {0, 0, 1, 7, 7, 14, 0, 0};  // hash codes of the special keys k0..k5; set by Init() of every world
static inline uint32 HashOfId(int id)
{
   if (id < 0) return 0;
   if (id < 8) return g_hash[id];
   return (((uint32)id * 40503u) & 0xffffu) >> 1;  // filler keys: spread, with pairs of fillers sharing one full hash code
}
struct HKey {
   int id;
   HKey() : id(-1) {}                 // non-trivial: freed slots are reset to the default key, so a stale read shows id -1
   explicit HKey(int i) : id(i) {}
   bool operator==(const HKey & o) const { return id == o.id; }
   bool operator!=(const HKey & o) const { return id != o.id; }
   bool operator<(const HKey & o) const { return id < o.id; }
   bool operator>(const HKey & o) const { return id > o.id; }
   uint32 HashCode() const { return HashOfId(id); }
};

#include "harness/C09_model.h"

typedef Hashtable<HKey, int> PlainT;
typedef OrderedKeysHashtable<HKey, int> OKeysT;
typedef OrderedValuesHashtable<HKey, int> OValsT;

struct PartSpec { const char * name; int kind; unsigned mask; int startSet; int depthQ, depthT; double share; bool thoroughOnly; };

// The engine attributes a worker death by re-running the lost histories in children that _exit() before the World is destroyed.  A crash that happens while
// the World is torn down (iterators A, B deleted, then tables t, u) -- exactly the "iterator outlives / is destroyed after a mutation" hazard of this property --
// would then only show up as a cap.  This pass finds such histories: every history of the unfinished level is re-run in a child INCLUDING the teardown.
template <class M> static void AttributeTeardownDeaths(seqx::Explorer<M> & ex, M & model, const PartSpec & ps, const seqx::Stats & S, const verif::Args & args, verif::Result & res)
{
   const double tEnd = verif::NowS() + 120; int found = 0; std::map<std::string, int> perKey;
   for (int32_t ni = 0; ni < (int32_t)ex._nodes.size() && found < 6 && verif::NowS() < tEnd; ni++) {
      std::vector<int> ops; const int start = ex.History(ni, ops); if ((int)ops.size() != S.depthCompleted) continue;
      ops.push_back(0);
      fflush(stdout); fflush(stderr);
      pid_t pid = fork();
      if (pid == 0) { int dn = open("/dev/null", O_WRONLY); if (dn >= 0) dup2(dn, 2); for (int op = 0; op < model.NumOps(); op++) { ops.back() = op; typename M::World w; std::string m, k; ex.Replay(w, start, ops, m, k); } _exit(0); }
      int st = 0; waitpid(pid, &st, 0); if (WIFEXITED(st) && WEXITSTATUS(st) == 0) continue;
      for (int op = 0; op < model.NumOps(); op++) {
         ops.back() = op; fflush(stdout);
         pid_t p2 = fork();
         if (p2 == 0) { int dn = open("/dev/null", O_WRONLY); if (dn >= 0) dup2(dn, 2); { typename M::World w; std::string m, k; ex.Replay(w, start, ops, m, k); } _exit(0); }
         int s2 = 0; waitpid(p2, &s2, 0); if (WIFEXITED(s2) && WEXITSTATUS(s2) == 0) continue;
         const std::string what = WIFSIGNALED(s2) ? verif::Fmt("sig%d", WTERMSIG(s2)) : verif::Fmt("exit%d", WEXITSTATUS(s2));
         const std::string key = "fatal:teardown:" + what + ":" + model.OpName(op);
         found++;
         if (perKey[key]++ < 2) res.AddViolation(key, std::string(ps.name) + ": process death (" + what + "; 87=ASan, 88=UBSan, 6=abort) while iterators A, B and then tables t, u are destroyed after this history",
                                                 res.WriteReplay(args, ps.name, ex.HistoryJson(start, ops) + ", \"observed\": \"process death during teardown of the world after the history\"}"));
      }
   }
   if (!found) res.AddViolation(std::string("fatal:unattributed-worker-death:") + ps.name, std::string(ps.name) + ": a worker process died (" + S.cap + ") and neither the engine nor the teardown pass could attribute it to a history within 120 s; re-run the part with --workers 1 to see the report", "");
}

template <class M> static int RunPart(M & model, const PartSpec & ps, int depth, const verif::Args & args, verif::Result & res, double absDeadline, const verif::ReplayDoc * replay)
{
   seqx::Explorer<M> ex(model, args, res, ps.name);
   if (replay) {
      // start-state lists differ between the tiers (thorough is a superset): resolve the start state by its recorded name in the thorough list
      verif::ReplayDoc d = *replay; const std::string want = d.Str("start_name"); int idx = -1;
      for (int i = 0; i < model.NumStarts(); i++) if (model.StartName(i) == want) idx = i;
      if (idx < 0) { fprintf(stderr, "replay file names unknown start state '%s'\n", want.c_str()); return 3; }
      d.s["start"] = verif::Fmt("%d", idx);
      return ex.ReplayFile(d);
   }
   ex.SetDeadline(absDeadline);
   const size_t v0 = res.violations.size();
   {  // every start state is built, checked by the full oracle and torn down in a child of its own, so that a start state that already breaks is a reported case
      std::vector<verif::ParRecord> recs; std::vector<size_t> lost;
      verif::ParMap((size_t)model.NumStarts(), args.workers, [&](size_t i, std::string & rec) { typename M::World w; model.Init(w, (int)i); std::string m, k; if (!model.CheckAll(w, true, m, k)) rec = k + '\n' + m + model.Dump(w); }, recs, &lost);
      for (size_t i = 0; i < recs.size(); i++) if (!recs[i].data.empty()) {
         const std::string & d = recs[i].data; const size_t nl = d.find('\n');
         res.AddViolation(d.substr(0, nl) + ":start-state", std::string(ps.name) + ": start state " + model.StartName((int)recs[i].idx) + ": " + d.substr(nl + 1), res.WriteReplay(args, ps.name, ex.HistoryJson((int)recs[i].idx, std::vector<int>()) + "}"));
      }
      for (size_t i = 0; i < lost.size(); i++)
         res.AddViolation("fatal:start-state", std::string(ps.name) + ": process death while start state " + model.StartName((int)lost[i]) + " is built, checked and destroyed", res.WriteReplay(args, ps.name, ex.HistoryJson((int)lost[i], std::vector<int>()) + "}"));
   }
   seqx::Stats S = ex.Run(depth);
   res.parts.back().rule = model.Rule(depth);
   if (!S.exhaustive && S.cap.compare(0, 12, "worker death") == 0) {
      bool attributed = false; for (size_t i = v0; i < res.violations.size(); i++) if (res.violations[i].key.compare(0, 6, "fatal:") == 0) attributed = true;
      if (!attributed) AttributeTeardownDeaths(ex, model, ps, S, args, res);
   }
   fprintf(stderr, "C09[%s]: states=%llu transitions=%llu depth=%d exhaustive=%d outcomes=%llu violations=%llu cap='%s' wall=%.1fs\n", ps.name, (unsigned long long)S.states, (unsigned long long)S.transitions,
           S.depthCompleted, (int)S.exhaustive, (unsigned long long)S.distinctOutcomes, (unsigned long long)S.violations, S.cap.c_str(), verif::NowS() - args.t0);
   return 0;
}

int main(int argc, char ** argv)
{
   verif::Args args; args.Parse(argc, argv);
   verif::Result res; res.harness = "C09_hashtable";
   const bool th = args.Thorough();
   // name, table kind, alphabet mask, start-state set, depth quick, depth thorough, share of the deadline, thorough only
   static const PartSpec parts[] = {
      {"small-core",       0, M_CORE,           SS_SMALL,  4, 5, 0.29, false},
      {"small",            0, M_SMALL,          SS_SMALL,  3, 4, 0.14, false},
      {"small-full",       0, M_FULL,           SS_SMALLQ, 3, 4, 0.10, false},
      {"boundary255",      0, M_CORE | M_BOUND, SS_BOUND,  3, 3, 0.10, false},
      {"boundary255-wide", 0, M_BWIDE,          SS_BOUNDW, 2, 2, 0.03, false},
      {"boundary255-deep", 0, M_HUGE,           SS_BOUNDD, 3, 4, 0.04, false},
      {"boundary65k",      0, M_HUGE,           SS_HUGE,   1, 2, 0.05, false},
      {"boundary65k-deep", 0, M_HUGED,          SS_HUGED,  2, 3, 0.08, true},
      {"ordered-keys",     1, M_ORD,            SS_ORD,    3, 4, 0.06, false},
      {"ordered-values",   2, M_ORD,            SS_ORD,    3, 4, 0.07, false},
      {"alias",            0, M_ALIAS,          SS_ALIAS,  2, 3, 0.02, false},
   };
   verif::ReplayDoc doc; const verif::ReplayDoc * rp = NULL;
   if (!args.replay.empty()) { if (!doc.Load(args.replay)) { fprintf(stderr, "cannot read %s\n", args.replay.c_str()); return 3; } rp = &doc; }
   int layout = 2; if (args.kv.count("layout")) layout = atoi(args.kv["layout"].c_str());
   const bool ces = (rp != NULL) || (args.kv.count("check-every-step") && atoi(args.kv["check-every-step"].c_str()) != 0);
   double used = 0;
   for (size_t i = 0; i < sizeof(parts) / sizeof(parts[0]); i++) {
      const PartSpec & ps = parts[i];
      if (rp) { if (doc.Str("part") != ps.name) continue; }
      else { if (!args.WantPart(ps.name)) continue; if (ps.thoroughOnly && !th && args.part.empty()) continue; }
      int depth = th ? ps.depthT : ps.depthQ;
      std::string dk = std::string("depth-") + ps.name;
      if (i == 0 && args.kv.count("depth")) depth = atoi(args.kv["depth"].c_str());
      if (args.kv.count(dk)) depth = atoi(args.kv[dk].c_str());
      used += ps.share;
      const double dl = args.part.empty() ? args.t0 + args.deadline * 0.9 * std::min(1.0, used) : args.t0 + args.deadline * 0.9;
      int r = 0;
      const bool mt = th || rp != NULL;   // a replay resolves its start state in the thorough (superset) list
      if (ps.kind == 0)      { HtModel<PlainT, 0> m(ps.mask, ps.startSet, mt, layout, ces); r = RunPart(m, ps, depth, args, res, dl, rp); }
      else if (ps.kind == 1) { HtModel<OKeysT, 1> m(ps.mask, ps.startSet, mt, layout, ces); r = RunPart(m, ps, depth, args, res, dl, rp); }
      else                   { HtModel<OValsT, 2> m(ps.mask, ps.startSet, mt, layout, ces); r = RunPart(m, ps, depth, args, res, dl, rp); }
      if (rp) return r;
   }
   if (rp) { fprintf(stderr, "replay file names unknown part '%s'\n", doc.Str("part").c_str()); return 3; }
   res.observations.push_back("operator-- on an iterator that holds a saved copy of an unlinked entry only drops the copy (the iterator then stands on the entry that FOLLOWED the unlinked one, it does not step back); modelled as observed, the header does not define it");
   res.observations.push_back("ShrinkToFit() on an empty table releases the array and reports the default capacity (7) as GetNumAllocatedItemSlots(); slot counts are only compared for non-empty results");
   res.observations.push_back("MoveToBefore/MoveToBehind with an absent TARGET key return B_DATA_NOT_FOUND and PutBefore/PutBehind with key == target act like Put; the header names B_DATA_NOT_FOUND only for an absent moved key, so for an absent target only 'is an error, table unchanged' is compared");
   res.observations.push_back("the content of an iterator's saved copy (entry unlinked under the cursor) is read for memory safety but never compared: Clear() overwrites an older saved copy with the entry under the cursor");
   return res.Write(args);
}
