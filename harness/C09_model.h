// C09 model: alphabet, start states, reference map + reference iterators, oracle, canonical form.  Included by C09_hashtable.cpp only.
#ifndef VERIF_C09_MODEL_H
#define VERIF_C09_MODEL_H

enum { M_SMALL = 1, M_FULL = 2, M_BOUND = 4, M_HUGE = 8, M_ORD = 16, M_ALIAS = 32, M_CORE = 64, M_BWIDE = 128, M_HUGED = 256 };          // alphabet masks
enum { SS_SMALL = 0, SS_SMALLQ, SS_BOUND, SS_BOUNDW, SS_BOUNDD, SS_HUGE, SS_HUGED, SS_ORD, SS_ALIAS };                         // start-state sets
enum { T = 0, U = 1 };

enum OpKind {
   PUT, PUT_PREV, PUT_FRONT, PUT_BACK, PUT_BEFORE, PUT_BEHIND, PUT_AT, PUT_IFNOT, GETORPUT, PUTANDGET, PUT_DEFAULT, PUTORREMOVE, PUT_SELFVAL, PUT_TABLE,
   GET_MTF, GET_MTB,
   REMOVE, REMOVE_RET, REMOVE_DEF, REMOVE_FIRST, REMOVE_LAST, REMOVE_FIRST_KV, REMOVE_LAST_K, REMOVE_TABLE, REMOVE_SELF, INTERSECT,
   MTF, MTB, MBEFORE, MBEHIND, MPOS,
   SORTKEY, SORTVAL, SORT, REPOSITION,
   ENSURE_DOUBLE, ENSURE_CANPUT, SHRINK, SHRINK1, ENSURE_SHRINK, CLEAR, CLEAR_REL,
   ASSIGN_T_U, ASSIGN_U_T, SWAP, MOVE_T_U, COPYCTOR, MOVECTOR, MOVETOTABLE, MOVEFROMTABLE, COPYTOTABLE, SWAPWITHTABLE,
   EQ, KEYSETS, WOULDPUT, WOULDREMOVE,
   U_REMOVE, U_PUT, U_CLEAR,
   IT_NEW, IT_ADV, IT_RET, IT_DEL, IT_COPY, IT_SWAP, IT_FLIP,
   DESTROY_T,
   AL_PUTBEFORE, AL_PUTBEHIND, AL_PUTFRONT_EXISTING, AL_MOVEBEFORE, AL_REMOVE_FIRSTKEY, AL_MOVETOTABLE_FIRSTKEY, AL_PUT_LASTKEY_FIRSTVAL,
   NUM_OPKINDS
};
static const char * const kKindNames[NUM_OPKINDS] = {
   "Put", "Put(prev)", "PutAtFront", "PutAtBack", "PutBefore", "PutBehind", "PutAtPosition", "PutIfNotAlreadyPresent", "GetOrPut", "PutAndGet", "PutWithDefault", "PutOrRemove", "Put(k,*GetFirstValue())", "Put(table)",
   "GetAndMoveToFront", "GetAndMoveToBack",
   "Remove", "Remove(ret)", "RemoveWithDefault", "RemoveFirst", "RemoveLast", "RemoveFirst(k,v)", "RemoveLast(k)", "Remove(table)", "Remove(self)", "Intersect",
   "MoveToFront", "MoveToBack", "MoveToBefore", "MoveToBehind", "MoveToPosition",
   "SortByKey", "SortByValue", "Sort", "Reposition",
   "EnsureSize(2*slots)", "EnsureCanPut(2)", "ShrinkToFit", "ShrinkToFit(1)", "EnsureSize(n+2,allowShrink)", "Clear", "Clear(release)",
   "t=u", "u=t", "SwapContents", "t=move(u)", "CopyCtor", "MoveCtor", "t.MoveToTable", "u.MoveToTable", "t.CopyToTable", "t.SwapWithTable",
   "t==u", "KeySetRelations", "WouldBeEqualToAfterPut", "WouldBeEqualToAfterRemove",
   "u.Remove", "u.Put", "u.Clear",
   "NewIterator", "iter++", "iter--", "~iter", "B=A", "A.SwapContents(B)", "iter.SetBackwards(flip)",
   "DestroyTable",
   "PutBefore(k,*GetFirstKey())", "PutBehind(k,*GetLastKey())", "PutAtFront(*GetLastKey())", "MoveToBefore(*GetLastKey(),*GetFirstKey())", "Remove(*GetFirstKey())", "MoveToTable(*GetFirstKey(),u)", "Put(*GetLastKey(),*GetFirstValue())"
};
struct Op { OpKind k; int a, b, v; unsigned mask; std::string name; };

// position selectors, resolved against the current size n
enum { P0 = 0, P1, PMID, PLAST, PSIZE, PSIZE1 };
static inline uint32 SelPos(int sel, size_t n) { switch (sel) { case P0: return 0; case P1: return 1; case PMID: return (uint32)(n / 2); case PLAST: return (uint32)(n ? n - 1 : 0); case PSIZE: return (uint32)n; default: return (uint32)(n + 1); } }
static inline const char * SelName(int sel) { static const char * n[] = {"@0", "@1", "@mid", "@last", "@size", "@size+1"}; return n[sel]; }

// ---------------------------------------------------------------- reference
struct KV { int k, v; };
typedef std::vector<KV> RList;
struct RefIter {
   bool live, back, saved;  // saved: holds a copy of an entry that was unlinked under its cursor (current item = the copy)
   int owner;               // table whose mutations concern this iterator (T, U) or -1 (never registered / detached by Clear or destruction)
   int cursor;              // key id of the entry the iterator stands on (the NEXT item if saved), -1 = none
   RefIter() : live(false), back(false), saved(false), owner(-1), cursor(-1) {}
};
static inline void AppendInt(std::string & s, long v) { char b[24]; int i = 23; b[i] = 0; bool neg = v < 0; unsigned long x = neg ? (unsigned long)(-v) : (unsigned long)v; do { b[--i] = (char)('0' + x % 10); x /= 10; } while (x); if (neg) b[--i] = '-'; s.append(b + i); }

// members that exist only in the auto-sorting variants
template <class TT, int K> struct AutoSortOf { static char Get(const TT & x) { return x._autoSortEnabled ? 'S' : 's'; } static status_t Reposition(TT & x, const HKey & k) { return x.Reposition(k); } };
template <class TT> struct AutoSortOf<TT, 0> { static char Get(const TT &) { return '-'; } static status_t Reposition(TT &, const HKey &) { return B_NO_ERROR; } };

#include "harness/C09_model_body.h"

#endif
