// C06 part 2 -- departure is traceless (SEQX, differential).  Included from harness/C06_isolation.cpp only.
//
// Two real servers are advanced in lock-step inside one World:
//   real    A (/hA/1), B (/hB/3) and X (/hA/2, same host as A; in one start state /hX/2, alone on its host, so that the host node
//           must vanish with it), X arrives and leaves as operations of the alphabet
//   shadow  A and B only: every command of A and B is injected into both servers, X's commands only into `real`, X never connects to `shadow`
// After EVERY operation:
//   * X absent  : Dump(real) == Dump(shadow) verbatim (ids are pinned per role; generated names by rank), no node carries a subscriber
//                 entry of X, the node counts agree, no subscriber's mirror still holds a node of X (it was told of every removal);
//   * X present : Dump(real restricted to A and B, X's subscriber marks stripped) == Dump(shadow restricted to A and B);
//   * always    : what A and B were sent, with everything attributable to X removed (notices about nodes under X's root, Messages X
//                 routed), is the same text in both servers, Message boundaries included; A's and B's mirrors, X's nodes left
//                 out, are equal; both servers quiescent, tree invariants hold.
// "X leaves at every position" = the leave operation is enabled in every state in which X is present, and the exploration
// continues afterwards (X may come back), so a hidden leftover that only shows in later behaviour is looked for as well.
#ifndef VERIF_C06_DEPARTURE_H
#define VERIF_C06_DEPARTURE_H

namespace dep {

using namespace seqx;
using l1::MessageRef;
using l1::Keys;

enum { RA = 0, RX = 1, RB = 2, NROLE = 3 };
static const char * kHost[NROLE] = { "hA", "hA", "hB" };
static const uint32_t kId[NROLE] = { 1, 2, 3 };
static const char kCh[NROLE] = { 'A', 'X', 'B' };
static const char * kXIdText = "2";

enum Kind { K_SET, K_RM, K_SUB, K_UNSUB_ALL, K_INS, K_MSG, K_MSG_ALL, K_ARRIVE, K_LEAVE };
struct Op { Kind kind; int role; std::string path; int payload; int filt; std::string name, kindName; };

static std::set<verif::Hash128> g_cleanPrefixes;   // histories already executed AND compared clean in this process (see C04: lazy comparison)

struct World {
   l1::L1World real, shadow;
   bool xAttached, hasSubs[NROLE];
   std::string xHost, xRoot;              // X's host ("hA" shared with A, or "hX" exclusive) and session directory
   c06::Mirror mirR[NROLE], mirS[NROLE];
   verif::Hash128 hist;
   std::string initError, initKey, outcome;
   World() : xAttached(false) { for (int i = 0; i < NROLE; i++) hasSubs[i] = false; hist.a = hist.b = 0; }
};

struct Model {
   std::vector<Op> ops;
   struct Start { std::string name, xHost; std::vector<std::string> prefix; Start() : xHost("hA") {} };
   std::vector<Start> starts;

   void Add(Kind k, int role, const std::string & path, int payload, int filt, const std::string & text, const std::string & kindName)
   {
      Op o; o.kind = k; o.role = role; o.path = path; o.payload = payload; o.filt = filt; o.name = std::string(1, kCh[role]) + ": " + text; o.kindName = kindName; ops.push_back(o);
   }
   int FindOp(const std::string & name) const { for (size_t i = 0; i < ops.size(); i++) if (ops[i].name == name) return (int)i; fprintf(stderr, "C06: no op named '%s'\n", name.c_str()); exit(3); }

   void RoleOps(int r)
   {
      Add(K_SET, r, "x", 1, 0, "SETDATA x=v1", "setdata");
      Add(K_SET, r, "x", 2, 0, "SETDATA x=v2", "setdata");
      Add(K_SET, r, "x/y", 1, 0, "SETDATA x/y=v1", "setdata-nested");
      Add(K_RM, r, "x", 0, 0, "REMOVEDATA x", "removedata");
      Add(K_RM, r, "*", 0, 0, "REMOVEDATA *", "removedata-wildcard");
      static const char * pats[4] = { "/*/*/x", "/*/*/*", "/*/*/x/*", "/*/*" };
      for (int p = 0; p < 4; p++) for (int f = 0; f < 2; f++) {
         if (p == 3 && f == 1) continue;   // session nodes carry an empty payload: a v==1 filter never matches them
         Add(K_SUB, r, pats[p], 0, f, std::string("SETPARAMETERS SUBSCRIBE:") + pats[p] + (f ? " [v==1]" : ""), f ? "subscribe-filtered" : (p == 3 ? "subscribe-session-level" : "subscribe"));
      }
      Add(K_SUB, r, "x", 0, 0, "SETPARAMETERS SUBSCRIBE:x (relative path)", "subscribe-relative");   // normalised by the server to */*/x: a different spelling of /*/*/x
      Add(K_SUB, r, "/*/*/s\\*t", 0, 0, "SETPARAMETERS SUBSCRIBE:/*/*/s\\*t (escaped star: the one node named s*t)", "subscribe-escaped-literal");
      Add(K_SET, r, "s*t", 1, 0, "SETDATA s*t=v1 (a node name containing a metacharacter)", "setdata-metachar-name");
      Add(K_UNSUB_ALL, r, "", 0, 0, "REMOVEPARAMETERS SUBSCRIBE:*", "unsubscribe-all");
      Add(K_INS, r, "x", 2, 0, "INSERTORDEREDDATA x <- v2", "insert-ordered");
      Add(K_MSG, r, "/*/*/x", 0, 0, "Message to /*/*/x", "routed-message");
      Add(K_MSG_ALL, r, "", 0, 0, "Message without keys (broadcast)", "broadcast-message");
   }

   Model()
   {
      RoleOps(RA);
      Add(K_ARRIVE, RX, "", 0, 0, "session arrives", "session-arrives");
      Add(K_LEAVE, RX, "", 0, 0, "session leaves", "session-leaves");
      RoleOps(RX);
      RoleOps(RB);
      { Start s; s.name = "A and B attached, X absent; no data, no subscriptions"; starts.push_back(s); }
      { Start s; s.name = "A holds x=v2; X present with x=v1, x/y, an ordered child of x and SUBSCRIBE:/*/*/*; B subscribed to /*/*/x and /*/*/x/*";
        static const char * p[] = { "A: SETDATA x=v2", "X: session arrives", "X: SETDATA x=v1", "X: SETDATA x/y=v1", "X: INSERTORDEREDDATA x <- v2", "X: SETPARAMETERS SUBSCRIBE:/*/*/*", "B: SETPARAMETERS SUBSCRIBE:/*/*/x", "B: SETPARAMETERS SUBSCRIBE:/*/*/x/*", NULL };
        for (int i = 0; p[i]; i++) s.prefix.push_back(p[i]); starts.push_back(s); }
      { Start s; s.name = "B holds x=v1 and watches sessions (/*/*); A holds x=v1 with an ordered child and a filtered catch-all subscription; X present, subscribed to /*/*, /*/*/x/* and /*/*/x [v==1], holding x=v2";
        static const char * p[] = { "B: SETDATA x=v1", "B: SETPARAMETERS SUBSCRIBE:/*/*", "A: SETPARAMETERS SUBSCRIBE:/*/*/* [v==1]", "A: SETDATA x=v1", "A: INSERTORDEREDDATA x <- v2", "X: session arrives", "X: SETPARAMETERS SUBSCRIBE:/*/*", "X: SETPARAMETERS SUBSCRIBE:/*/*/x/*", "X: SETPARAMETERS SUBSCRIBE:/*/*/x [v==1]", "X: SETDATA x=v2", NULL };
        for (int i = 0; p[i]; i++) s.prefix.push_back(p[i]); starts.push_back(s); }
      { Start s; s.xHost = "hX"; s.name = "X on a host of its own (/hX/2), present, holding x=v1 and subscribed to /*/*/x; A holds x=v2 and watches sessions (/*/*); B subscribed to /*/*/*";
        static const char * p[] = { "A: SETDATA x=v2", "A: SETPARAMETERS SUBSCRIBE:/*/*", "B: SETPARAMETERS SUBSCRIBE:/*/*/*", "X: session arrives", "X: SETDATA x=v1", "X: SETPARAMETERS SUBSCRIBE:/*/*/x", NULL };
        for (int i = 0; p[i]; i++) s.prefix.push_back(p[i]); starts.push_back(s); }
      { Start s; s.name = "A holds x=v1, B holds x=v2; X present, holding x=v1 and subscribed to x (relative path) once already";
        static const char * p[] = { "A: SETDATA x=v1", "B: SETDATA x=v2", "X: session arrives", "X: SETDATA x=v1", "X: SETPARAMETERS SUBSCRIBE:x (relative path)", NULL };
        for (int i = 0; p[i]; i++) s.prefix.push_back(p[i]); starts.push_back(s); }
   }
   void KeepStarts(int n) { if ((int)starts.size() > n) starts.resize(n); }

   typedef dep::World World;
   int NumStarts() const { return (int)starts.size(); }
   int NumOps() const { return (int)ops.size(); }
   std::string OpName(int op) const { return ops[op].name; }
   std::string StartName(int s) const { return starts[s].name; }

   void Init(World & W, int start) const
   {
      W.hist.a = verif::Mix64(0xC06ULL + (uint64_t)start * 977); W.hist.b = verif::Mix64(W.hist.a ^ 0x9e3779b97f4a7c15ULL);
      W.xHost = starts[start].xHost; W.xRoot = "/" + W.xHost + "/" + kXIdText;
      const int initial[2] = { RA, RB };
      for (int k = 0; k < 2; k++) { const int r = initial[k]; if (!W.real.Attach(r, kHost[r], kId[r]) || !W.shadow.Attach(r, kHost[r], kId[r])) { W.initError = "attach failed"; W.initKey = "infra"; return; } }
      std::string msg, key;
      int st = Check(W, NULL, true, msg, key);
      if (st != SEQX_OK) { W.initError = "empty start: " + msg; W.initKey = (st < 0) ? "infra" : key; return; }
      for (size_t i = 0; i < starts[start].prefix.size(); i++) {
         st = Apply(W, FindOp(starts[start].prefix[i]), msg, key);
         if (st != SEQX_OK) { W.initError = "start-state prefix op '" + starts[start].prefix[i] + "': " + (st == SEQX_DISABLED ? std::string("disabled") : msg); W.initKey = (st == SEQX_DISABLED || st < 0) ? "infra" : key; return; }
      }
   }

   bool Enabled(const World & W, const Op & o) const
   {
      if (o.kind == K_ARRIVE) return !W.xAttached;
      if (o.role == RX && !W.xAttached) return false;
      if (o.kind == K_UNSUB_ALL) return W.hasSubs[o.role];
      return true;
   }

   static MessageRef Make(const Op & o)
   {
      switch (o.kind) {
         case K_SET: return l1::SetData(o.path, l1::Payload(o.payload));
         case K_RM: return l1::RemoveData(Keys(o.path));
         case K_SUB: return l1::Subscribe(o.path, o.filt ? l1::Int32Filter("v", muscle::Int32QueryFilter::OP_EQUAL_TO, 1) : MessageRef());
         case K_UNSUB_ALL: return l1::UnsubscribeAll();
         case K_INS: { MessageRef m = l1::InsertOrderedData(Keys(o.path)); l1::AddData(m, "append", l1::Payload(o.payload)); return m; }
         case K_MSG: { MessageRef m = l1::Keyed(1000 + (uint32_t)o.role, Keys(o.path)); (void) m()->AddString(PR_NAME_SESSION, l1::U32(kId[o.role]).c_str()); return m; }
         case K_MSG_ALL: { MessageRef m = l1::NewMsg(2000 + (uint32_t)o.role); (void) m()->AddString(PR_NAME_SESSION, l1::U32(kId[o.role]).c_str()); return m; }
         default: break;
      }
      return MessageRef();
   }

   int Apply(World & W, int opi, std::string & msg, std::string & key) const
   {
      if (!W.initError.empty()) { msg = "start state is not clean: " + W.initError; key = "start-state:" + W.initKey; return (W.initKey == "infra") ? -1 : SEQX_VIOLATION; }
      const Op & o = ops[opi];
      if (!Enabled(W, o)) return SEQX_DISABLED;
      W.hist.a = verif::Mix64(W.hist.a + (uint64_t)opi + 1); W.hist.b = verif::Mix64((W.hist.b ^ ((uint64_t)opi + 0x51ed27ULL)) * 0x100000001b3ULL);
      switch (o.kind) {
         case K_ARRIVE: if (!W.real.Attach(RX, W.xHost, kId[RX])) { msg = "attach failed"; key = "infra"; return -1; } W.xAttached = true; W.hasSubs[RX] = false; break;
         case K_LEAVE: (void) W.real.Depart(RX); W.xAttached = false; W.hasSubs[RX] = false; break;
         default:
            W.real.Inject(o.role, Make(o));
            if (o.role != RX) W.shadow.Inject(o.role, Make(o));
            if (o.kind == K_SUB) W.hasSubs[o.role] = true;
            if (o.kind == K_UNSUB_ALL) W.hasSubs[o.role] = false;
            break;
      }
      const bool compare = !g_cleanPrefixes.count(W.hist);
      const int st = Check(W, &o, compare, msg, key);
      if (st == SEQX_OK && compare) { if (g_cleanPrefixes.size() > 2000000) g_cleanPrefixes.clear(); g_cleanPrefixes.insert(W.hist); }
      return st;
   }

   // drains both servers into the mirrors (always) and compares (when `compare`)
   int Check(World & W, const Op * o, bool compare, std::string & msg, std::string & key) const
   {
      const std::string kind = o ? o->kindName + (o->role == RX ? "-by-X" : "-by-other") : std::string("start");
      W.outcome.clear();
      if (compare) {
         std::string q = W.real.CheckQuiescent(); if (q.empty()) q = W.shadow.CheckQuiescent();
         if (!q.empty()) { key = "not-quiescent:" + kind; msg = q; return SEQX_VIOLATION; }
      }
      if (W.xAttached) { std::vector<MessageRef> xin = W.real.Drain(RX); if (compare) for (size_t i = 0; i < xin.size(); i++) W.outcome += "X<-" + c06::ScrubGen(l1::MsgText(xin[i])) + "\n"; }
      const int others[2] = { RA, RB };
      for (int k = 0; k < 2; k++) {
         const int r = others[k];
         std::vector<MessageRef> gr = W.real.Drain(r), gs = W.shadow.Drain(r);
         c06::ApplyToMirror(W.mirR[r], gr); c06::ApplyToMirror(W.mirS[r], gs);
         if (o && o->kind == K_UNSUB_ALL && o->role == r) { W.mirR[r].clear(); W.mirS[r].clear(); }   // the server sends nothing on unsubscribe: the client drops its mirror itself
         if (!compare) continue;
         const std::string tr = c06::InboxText(gr, W.xRoot, kXIdText), ts = c06::InboxText(gs, "", "");
         W.outcome += std::string(1, kCh[r]) + "<-" + c06::InboxText(gr, "", "") + "\n";
         if (tr != ts) {
            key = "inbox-differs:" + kind;
            msg = std::string("what client ") + kCh[r] + " was sent, minus everything attributable to X, differs from what it is sent when X never existed; with X: [" + tr + "] without X: [" + ts + "]";
            return SEQX_VIOLATION;
         }
      }
      if (!compare) return SEQX_OK;
      std::string q = W.real.CheckTreeInvariants(); if (q.empty()) q = W.shadow.CheckTreeInvariants();
      if (!q.empty()) { key = "tree-invariant:" + kind; msg = q; return SEQX_VIOLATION; }
      if (!W.xAttached) {
         muscle::DataNode * root = W.real.RootNode(), * sroot = W.shadow.RootNode();
         if (root) {
            const std::string mark = c06::FindSubscriberMark(*root, kId[RX]);
            if (!mark.empty()) { key = "subscriber-mark-of-departed-session:" + kind; msg = "node " + mark + " still carries a subscriber entry of the departed session 2"; return SEQX_VIOLATION; }
            muscle::DataNodeRef hostNode, gone;
            if (root->GetChild(muscle::String(W.xHost.c_str()), hostNode).IsOK()) {
               if (hostNode()->GetChild(muscle::String(kXIdText), gone).IsOK()) { key = "subtree-of-departed-session-remains:" + kind; msg = "node " + W.xRoot + " still exists after session 2 left"; return SEQX_VIOLATION; }
               if (W.xHost != kHost[RA] && W.xHost != kHost[RB]) { key = "host-node-of-departed-session-remains:" + kind; msg = "host node /" + W.xHost + " still exists although its only session left"; return SEQX_VIOLATION; }
            }
         }
         for (int k = 0; k < 2; k++) if (c06::MirrorMentions(W.mirR[others[k]], W.xRoot)) {
            key = "subscriber-not-told-of-removal:" + kind; msg = std::string("the mirror of subscriber ") + kCh[others[k]] + " still holds nodes of the departed session: " + c06::CanonMirror(W.mirR[others[k]], ""); return SEQX_VIOLATION;
         }
         const std::string dr = W.real.Dump(), ds = W.shadow.Dump();
         if (dr != ds) {
            key = std::string((o && o->kind == K_LEAVE) ? "departure-leaves-trace:" : "state-diverged-after-departure:") + kind;
            msg = "canonical server state with X gone differs from the state of the server X never connected to: " + c06::FirstDiff(dr, ds); return SEQX_VIOLATION;
         }
         if (root && sroot && c06::CountNodes(*root) != c06::CountNodes(*sroot)) { key = "node-count-differs:" + kind; msg = "node counts differ"; return SEQX_VIOLATION; }
      } else {
         l1::DumpOpts m; m.roleMask = (1u << RA) | (1u << RB);
         std::string dr = c06::StripSubscriber(W.real.Dump(m), kId[RX]); const std::string ds = W.shadow.Dump(m);
         if (W.xHost != kHost[RA] && W.xHost != kHost[RB]) dr = c06::DropNodeLine(dr, "/" + W.xHost);   // the host node X alone lives on is one of X's visible effects
         if (dr != ds) { key = "remaining-sessions-differ-while-X-present:" + kind; msg = "state of A and B (X's subscriber marks removed) differs from the server without X: " + c06::FirstDiff(dr, ds); return SEQX_VIOLATION; }
      }
      for (int k = 0; k < 2; k++) {
         const int r = others[k];
         const std::string mr = c06::CanonMirror(W.mirR[r], W.xRoot), ms = c06::CanonMirror(W.mirS[r], "");
         if (mr != ms) { key = "mirror-differs:" + kind; msg = std::string("mirror of client ") + kCh[r] + " (nodes of X left out) differs between the two servers; with X:\n" + mr + "without X:\n" + ms; return SEQX_VIOLATION; }
      }
      return SEQX_OK;
   }

   void Canon(const World & W, std::string & out) const
   {
      if (!W.initError.empty()) { out = "INIT-ERROR " + W.initError; return; }
      out = W.real.Dump() + "## shadow\n" + W.shadow.Dump();
      const int others[2] = { RA, RB };
      for (int k = 0; k < 2; k++) out += std::string("MIRROR ") + kCh[others[k]] + "\n" + c06::CanonMirror(W.mirR[others[k]], "") + "MIRROR' " + kCh[others[k]] + "\n" + c06::CanonMirror(W.mirS[others[k]], "");
   }
   void Outcome(const World & W, std::string & out) const { out = W.outcome; }
};

static std::string Rule(const Model & m, int depth)
{
   return verif::Fmt("every sequence of <=%d operations from a %d-operation alphabet from %d start states, each replayed on TWO fresh real ReflectServers in lock-step (one with X, one that X never connects to); "
                     "alphabet: for each of A (/hA/1), X (/hA/2; /hX/2 alone on its host in one start state) and B (/hB/3): SETDATA x=v1|v2, x/y=v1, REMOVEDATA x | *, SUBSCRIBE: /*/*/x, /*/*/*, /*/*/x/* each with and without filter v==1, SUBSCRIBE:/*/* (session level), SUBSCRIBE:x (relative spelling), SUBSCRIBE:/*/*/s\\*t (escaped literal) and SETDATA of a node named s*t, REMOVEPARAMETERS SUBSCRIBE:*, "
                     "INSERTORDEREDDATA under x, a routed Message to /*/*/x, a broadcast Message; X arrives; X leaves (enabled whenever X is present, so X leaves at every position of every history, and histories continue afterwards); "
                     "after every operation: with X absent Dump(server) == Dump(server without X) verbatim, no subscriber entry of X anywhere, X's session node (and its host node when X was alone on the host) gone, no mirror holds a node of X; with X present the dumps restricted to A and B (X's marks stripped) are equal; "
                     "what A and B are sent minus X-attributable content is identical in both servers (Message boundaries included) and so are their mirrors; states deduplicated on both canonical dumps + all four mirrors",
                     depth, m.NumOps(), m.NumStarts());
}

}  // namespace dep

#endif
